package vh

import (
	"fmt"
	"strings"
	"testing"
	"testing/synctest"

	"github.com/arm-doe/sts/internal/verif/vrt"
)

// E-SCHED: stateless exploration of goroutine interleavings with iterative
// preemption bounding (CHESS). One execution = one fresh bubble in which the
// scenario is built, its harness threads started under a vrt.Sched that follows a
// prefix of choices and then always takes choice 0 (= keep running the current
// thread). Alternatives at every decision beyond the prefix are explored
// depth-first as long as the number of preemptions stays within the bound.

// SchedScenario builds one execution.
type SchedScenario struct {
	Name string
	// Build creates the objects under test and starts harness threads with x.Go.
	// It returns a function that is called after the scheduler has finished: it checks
	// the property (returning violation text and classifier) and tears everything down.
	Build func(x *vrt.Sched) func(x *vrt.Sched) (viol, class, outcome string)
	Bound int // preemption bound
}

type SchedReplay struct {
	Scenario string   `json:"scenario"`
	Choices  []int    `json:"choices"`
	Trace    []string `json:"trace,omitempty"`
}

type schedRun struct {
	points   []vrt.PointRec
	viol     string
	class    string
	outcome  string
	deadlock string
	diverged string
	trace    []string
}

func runSched(t *testing.T, sc *SchedScenario, prefix []int, sigs []string) (r schedRun) {
	synctest.Test(t, func(t *testing.T) {
		x := vrt.New(prefix, sigs)
		after := sc.Build(x)
		x.Run()
		r.points = x.Points
		r.deadlock = x.Deadlock
		r.diverged = x.Diverged
		r.trace = x.Trace
		v, c, o := after(x)
		r.viol, r.class, r.outcome = v, c, o
	})
	return
}

// FreeRunSched runs a scenario n times without any scheduling control (real goroutines on
// all Ps, model locks replaced by their scheduler-less fallback). It is NOT part of the
// exhaustive exploration: it exists so that a binary built with -race can observe
// unsynchronised accesses, which the cooperative scheduler's hand-offs hide. Oracle failures
// seen here are counted and noted, never reported as violations (they are not replayable).
func FreeRunSched(t *testing.T, rep *Report, sc *SchedScenario, n int) {
	for i := 0; i < n; i++ {
		var viol, dead string
		synctest.Test(t, func(t *testing.T) {
			x := vrt.NewFree()
			after := sc.Build(x)
			x.Run()
			dead = x.Deadlock
			viol, _, _ = after(x)
		})
		rep.Executions++
		rep.Count("free_runs["+sc.Name+"]", 1)
		if viol != "" || dead != "" {
			rep.Count("free_run_oracle_failures["+sc.Name+"]", 1)
			if rep.Counters["free_run_oracle_failures["+sc.Name+"]"] <= 1 {
				rep.Note(fmt.Sprintf("[%s] free run %d: %s %s", sc.Name, i, dead, firstLine(viol)))
			}
		}
	}
}

func firstLine(s string) string {
	if i := strings.Index(s, "\n"); i >= 0 {
		return s[:i]
	}
	return s
}

// ExploreSched explores one scenario; returns false when cut short.
func ExploreSched(t *testing.T, rep *Report, sc *SchedScenario) bool {
	var rc SchedReplay
	if ReplaySpec(&rc) {
		if rc.Scenario != sc.Name {
			return true
		}
		r := runSched(t, sc, rc.Choices, nil)
		rep.Executions++
		if r.viol != "" || r.deadlock != "" {
			what := r.viol
			if r.deadlock != "" {
				what = "deadlock: " + r.deadlock + " " + what
			}
			rep.Violate(r.class, what, rc)
		}
		return true
	}
	complete := true
	item := 0
	var explore func(prefix []int, sigs []string, depth int)
	explore = func(prefix []int, sigs []string, depth int) {
		if DeadlinePassed() {
			if complete {
				rep.Note(fmt.Sprintf("[%s] internal deadline reached: exploration with preemption bound %d is incomplete", sc.Name, sc.Bound))
			}
			complete = false
			rep.Exhaustive = false
			return
		}
		r := runSched(t, sc, prefix, sigs)
		shard0, _ := Shard()
		counted := depth >= 2 || shard0 == 0 // levels 0 and 1 are run by every shard, counted once
		if counted {
			rep.Executions++
			rep.Transitions += int64(len(r.points))
		}
		if r.diverged != "" {
			rep.Count("diverged_replays", 1)
			rep.Note(fmt.Sprintf("[%s] a schedule prefix could not be replayed (%s); its subtree is not covered", sc.Name, r.diverged))
			rep.Exhaustive = false
			return
		}
		choices := make([]int, len(r.points))
		allSigs := make([]string, len(r.points))
		branching := 0
		for i, p := range r.points {
			choices[i] = p.Chosen
			allSigs[i] = p.Sig
			if p.N > 1 {
				branching++
			}
		}
		if counted {
			rep.States++
			if branching > 0 {
				rep.Nontrivial++
			}
		}
		if r.outcome != "" && counted {
			rep.Outcome(sc.Name + ": " + r.outcome)
		}
		if r.deadlock != "" || r.viol != "" {
			what := r.viol
			if r.deadlock != "" {
				what = "deadlock: " + r.deadlock + " " + r.viol
				if r.class == "" {
					r.class = "deadlock"
				}
			}
			tail := r.trace
			if len(tail) > 60 {
				tail = tail[len(tail)-60:]
			}
			rep.Violate(r.class, fmt.Sprintf("[%s] %s\nschedule (%d decisions, %d preemptions), last steps:\n  %s", sc.Name, what, len(choices), vrt.Preemptions(r.points, len(r.points)), strings.Join(tail, "\n  ")),
				SchedReplay{Scenario: sc.Name, Choices: choices})
			return
		}
		if rep.States%499 == 1 {
			rep.Sample(SchedReplay{Scenario: sc.Name, Choices: choices}, 6)
		}
		for i := len(prefix); i < len(r.points); i++ {
			p := r.points[i]
			if p.N < 2 {
				continue
			}
			cost := vrt.Preemptions(r.points, i)
			if p.CurEnabled {
				cost++
			}
			if cost > sc.Bound {
				continue
			}
			for alt := 1; alt < p.N; alt++ {
				if depth == 1 { // work is distributed over the shards on the second level
					item++
					if !Mine(item) {
						continue
					}
				}
				np := append(append([]int{}, choices[:i]...), alt)
				explore(np, allSigs[:i], depth+1)
			}
		}
	}
	// the default schedule is replayed twice first: identical decisions are required
	r1 := runSched(t, sc, nil, nil)
	r2 := runSched(t, sc, nil, nil)
	if fmt.Sprint(r1.points) != fmt.Sprint(r2.points) {
		rep.Count("default_schedule_divergence", 1)
		rep.Note(fmt.Sprintf("[%s] the default schedule did not replay identically (%d vs %d decisions)", sc.Name, len(r1.points), len(r2.points)))
	}
	explore(nil, nil, 0)
	return complete
}
