package vh

import (
	"encoding/json"
	"fmt"
)

// E-HIST: explicit-state search over operation histories.
//
// A state is the history of actions that reaches it. Successors are computed by
// replaying the history on a fresh instance plus one action (live objects cannot
// be cloned). States are deduplicated on a canonical digest supplied by the
// harness; the harness's oracle runs inside Run on every transition.

// HistResult is what one replay reports about its LAST action and final state.
type HistResult struct {
	Enabled bool   // false: the last action was not applicable here (no transition)
	Digest  string // canonical digest of the state reached ("" = never merge)
	Viol    string // non-empty: property violated on this path
	Class   string // classifier of the violation (known-finding class) if any
	Final   bool   // do not extend this state further
	Outcome string // observable outcome class (non-vacuity statistics)
	Ops     int    // harness-defined: number of crash points the last action offers
}

type Hist[A any] struct {
	Rep      *Report
	Alphabet func(hist []A) []A // actions to try after hist (simplest first)
	Run      func(hist []A) HistResult
	MaxDepth int
	// ShardDepth: histories of this length are distributed over the shards; each
	// shard explores the subtrees below its own prefixes (with its own visited set).
	ShardDepth int
	// Interesting marks a state as non-trivial for the evidence counters.
	NonTrivial func(hist []A, r HistResult) bool
	Render     func(hist []A) interface{}
	// OnTransition, when set, is called for every enabled, non-violating transition (i.e. once
	// per (distinct source state, action) pair): harnesses hang leaf enumerations on it
	// (e.g. all crash points of the last action).
	OnTransition func(hist []A, r HistResult)
	// MayDiverge marks histories whose outcome legitimately depends on something the
	// harness does not own (Go map iteration order inside the code under test); the
	// determinism self-test only counts a divergence there instead of failing.
	MayDiverge func(hist []A) bool
}

// maxStatesPerShard bounds the memory of one worker (16 of them run at once).
const maxStatesPerShard = 1500000

type histNode[A any] struct {
	hist []A
}

// Explore runs the breadth-first search. It returns false if it was cut short.
func (h *Hist[A]) Explore() bool {
	seen := map[string]bool{}
	frontier := []histNode[A]{{hist: nil}}
	render := h.Render
	if render == nil {
		render = func(hist []A) interface{} { return hist }
	}
	complete := true
	itemNo := 0
	for depth := 0; depth < h.MaxDepth && len(frontier) > 0; depth++ {
		var next []histNode[A]
		for _, n := range frontier {
			if DeadlinePassed() {
				h.Rep.Exhaustive = false
				h.Rep.Note(fmt.Sprintf("internal deadline reached at depth %d; all histories of length < %d were covered", depth+1, depth+1))
				return false
			}
			for _, a := range h.Alphabet(n.hist) {
				hist := append(append([]A{}, n.hist...), a)
				if len(hist) == h.ShardDepth {
					itemNo++
					if !Mine(itemNo) {
						continue
					}
				}
				r := h.Run(hist)
				h.Rep.Executions++
				if !r.Enabled {
					continue
				}
				h.Rep.Transitions++
				if r.Outcome != "" {
					h.Rep.Outcome(r.Outcome)
				}
				if r.Viol != "" {
					// re-run the failing history: report how often it reproduces
					again := 0
					for k := 0; k < 4; k++ {
						if rr := h.Run(hist); rr.Viol != "" {
							again++
						}
					}
					what := r.Viol
					if again < 4 {
						what = fmt.Sprintf("[schedule-dependent: reproduced in %d of 4 re-runs] %s", again, r.Viol)
					}
					h.Rep.Violate(r.Class, what, render(hist))
					continue // do not extend a violating path
				}
				if h.OnTransition != nil {
					h.OnTransition(hist, r)
				}
				if r.Digest != "" {
					if seen[r.Digest] {
						continue
					}
					seen[r.Digest] = true
					if len(seen) > maxStatesPerShard {
						// memory bound: the frontier holds one history per state
						h.Rep.Exhaustive = false
						h.Rep.Note(fmt.Sprintf("state cap of %d states per shard reached at depth %d; all histories of length < %d were covered", maxStatesPerShard, depth+1, depth+1))
						return false
					}
				}
				h.Rep.States++
				// determinism self-test: the first states of every run are replayed a second
				// time; the same history must reach the same digest and verdict
				if h.Rep.States <= 150 && r.Digest != "" {
					r2 := h.Run(hist)
					if r2.Digest != r.Digest || r2.Viol != r.Viol {
						// The residual nondeterminism E-HIST does not own (map iteration order inside
						// the code under test; which goroutine the runtime resumes first after a
						// blocking system call) is measured, not hidden: oracles are invariants that
						// must hold on every schedule, so a divergence costs deduplication accuracy only.
						h.Rep.Count("divergent_replays", 1)
						b, _ := json.Marshal(render(hist))
						if h.Rep.Counters["divergent_replays"] <= 2 {
							h.Rep.Note("a history replayed twice reached different states (schedule / map-order dependence inside the code under test), e.g. " + string(b))
						}
					}
					h.Rep.Count("determinism_replays", 1)
				}
				if h.NonTrivial == nil || h.NonTrivial(hist, r) {
					h.Rep.Nontrivial++
				}
				if h.Rep.States%997 == 1 {
					h.Rep.Sample(render(hist), 8)
				}
				if !r.Final {
					next = append(next, histNode[A]{hist: hist})
				}
			}
		}
		frontier = next
	}
	if len(frontier) > 0 {
		h.Rep.Note(fmt.Sprintf("depth bound %d reached with %d unexpanded states in this shard", h.MaxDepth, len(frontier)))
	}
	return complete
}
