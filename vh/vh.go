// Package vh is the harness library shared by all in-package harness files.
// It depends on the standard library and the shims only (so every sts package's
// test may import it).
package vh

import (
	"crypto/md5"
	"encoding/json"
	"fmt"
	"io"
	"os"
	"path/filepath"
	"sort"
	"strconv"
	"strings"
	"sync"
	"sync/atomic"
	"time"

	"github.com/arm-doe/sts/internal/verif/vos"
)

// NullLogger satisfies sts.Logger and drops everything.
type NullLogger struct{}

func (NullLogger) Debug(...interface{}) {}
func (NullLogger) Info(...interface{})  {}
func (NullLogger) Error(...interface{}) {}
func (NullLogger) Recent(int) []string  { return nil }

// ---------------------------------------------------------------- environment

func Tier() string {
	if t := os.Getenv("VERIF_TIER"); t != "" {
		return t
	}
	return "quick"
}

func Thorough() bool { return Tier() == "thorough" }

// Shard returns (index, count).
func Shard() (int, int) {
	s := os.Getenv("VERIF_SHARD")
	if s == "" {
		return 0, 1
	}
	var i, n int
	if _, err := fmt.Sscanf(s, "%d/%d", &i, &n); err != nil || n < 1 {
		return 0, 1
	}
	return i, n
}

// Mine tells whether work item k belongs to this shard.
func Mine(k int) bool {
	i, n := Shard()
	return k%n == i
}

// DeadlinePassed reports whether the internal (real-time) budget is used up.
// It only ever ends exploration early with exhaustive=false; it is never an oracle.
func DeadlinePassed() bool {
	s := os.Getenv("VERIF_DEADLINE_S")
	if s == "" {
		return false
	}
	d, err := strconv.Atoi(s)
	if err != nil {
		return false
	}
	return time.Duration(nanotime()-startNano) > time.Duration(d)*time.Second
}

var startNano = nanotime()

// ---------------------------------------------------------------- sandboxes

var sbCount int64

// NewSandbox creates an empty directory on /dev/shm.
func NewSandbox() string {
	n := atomic.AddInt64(&sbCount, 1)
	base := os.Getenv("VERIF_SCRATCH")
	if base == "" {
		base = "/dev/shm"
	}
	dir := filepath.Join(base, fmt.Sprintf("verif-%d-%d", os.Getpid(), n))
	_ = os.RemoveAll(dir)
	if err := os.MkdirAll(dir, 0755); err != nil {
		panic(err)
	}
	return dir
}

func RemoveSandbox(dir string) { _ = os.RemoveAll(dir) }

// Entry describes one node of a directory tree.
type Entry struct {
	Path  string `json:"p"`
	Dir   bool   `json:"d,omitempty"`
	Size  int64  `json:"s,omitempty"`
	MD5   string `json:"h,omitempty"`
	MTime int64  `json:"-"`
	Link  string `json:"l,omitempty"`
}

// List returns the sorted content of root (relative paths).
func List(root string) []Entry {
	var out []Entry
	_ = filepath.Walk(root, func(p string, info os.FileInfo, err error) error {
		if err != nil || p == root {
			return nil
		}
		rel, _ := filepath.Rel(root, p)
		e := Entry{Path: rel, MTime: info.ModTime().UnixNano()}
		switch {
		case info.IsDir():
			e.Dir = true
		case info.Mode()&os.ModeSymlink != 0:
			e.Link, _ = os.Readlink(p)
		default:
			e.Size = info.Size()
			e.MD5 = FileMD5(p)
		}
		out = append(out, e)
		return nil
	})
	sort.Slice(out, func(i, j int) bool { return out[i].Path < out[j].Path })
	return out
}

// ListString is a canonical one-line-per-entry rendering of List.
func ListString(root string) string {
	var b strings.Builder
	for _, e := range List(root) {
		switch {
		case e.Dir:
			fmt.Fprintf(&b, "%s/\n", e.Path)
		case e.Link != "":
			fmt.Fprintf(&b, "%s -> %s\n", e.Path, e.Link)
		default:
			fmt.Fprintf(&b, "%s %d %s\n", e.Path, e.Size, e.MD5)
		}
	}
	return b.String()
}

func FileMD5(path string) string {
	f, err := os.Open(path)
	if err != nil {
		return "!" + err.Error()
	}
	defer f.Close()
	h := md5.New()
	_, _ = io.Copy(h, f)
	return fmt.Sprintf("%x", h.Sum(nil))
}

func MD5(b []byte) string { return fmt.Sprintf("%x", md5.Sum(b)) }

func Digest(parts ...string) string {
	h := md5.New()
	for _, p := range parts {
		_, _ = io.WriteString(h, p)
		_, _ = h.Write([]byte{0})
	}
	return fmt.Sprintf("%x", h.Sum(nil))
}

// CopyTree copies src to dst (regular files, directories, symlinks), keeping mtimes.
func CopyTree(src, dst string) error {
	return filepath.Walk(src, func(p string, info os.FileInfo, err error) error {
		if err != nil {
			return nil // vanished meanwhile
		}
		rel, _ := filepath.Rel(src, p)
		target := filepath.Join(dst, rel)
		switch {
		case info.IsDir():
			if err := os.MkdirAll(target, 0755); err != nil {
				return err
			}
		case info.Mode()&os.ModeSymlink != 0:
			l, _ := os.Readlink(p)
			_ = os.Symlink(l, target)
		default:
			b, err := os.ReadFile(p)
			if err != nil {
				return nil
			}
			if err := os.WriteFile(target, b, 0644); err != nil {
				return err
			}
		}
		return nil
	})
}

// CopyTreeStamped copies a tree and carries the (virtual) mtimes over.
func CopyTreeStamped(src, dst string) error {
	vos.FixTree(src)
	if err := CopyTree(src, dst); err != nil {
		return err
	}
	// deepest first so that directory stamps survive
	var paths []string
	times := map[string]time.Time{}
	_ = filepath.Walk(src, func(p string, info os.FileInfo, err error) error {
		if err == nil {
			rel, _ := filepath.Rel(src, p)
			paths = append(paths, rel)
			times[rel] = info.ModTime()
		}
		return nil
	})
	sort.Sort(sort.Reverse(sort.StringSlice(paths)))
	for _, rel := range paths {
		vos.Stamp(filepath.Join(dst, rel), times[rel])
	}
	return nil
}

// WriteFileAt writes a file and stamps it with the given time (virtual or not).
func WriteFileAt(path string, data []byte, t time.Time) {
	if err := os.MkdirAll(filepath.Dir(path), 0755); err != nil {
		panic(err)
	}
	if err := os.WriteFile(path, data, 0644); err != nil {
		panic(err)
	}
	vos.Stamp(path, t)
}

// ---------------------------------------------------------------- reporting

// Violation is one failing case.
type Violation struct {
	Property   string      `json:"property"`
	Test       string      `json:"test,omitempty"`       // Go test function that found it (the replay runs that part only)
	Classifier string      `json:"classifier,omitempty"` // names the known-finding class it belongs to, if any
	What       string      `json:"what"`
	Replay     interface{} `json:"replay"`
}

// Report is what one worker process writes.
type Report struct {
	Property    string           `json:"property"`
	Part        string           `json:"part"`
	Shard       string           `json:"shard"`
	Executions  int64            `json:"executions"`
	States      int64            `json:"states"`
	Transitions int64            `json:"transitions"`
	Nontrivial  int64            `json:"nontrivial"`
	Exhaustive  bool             `json:"exhaustive"`
	Bound       string           `json:"bound"`
	Counters    map[string]int64 `json:"counters"`
	Outcomes    map[string]int64 `json:"outcomes"`
	StateHashes []string         `json:"state_hashes,omitempty"`
	Samples     []interface{}    `json:"samples"`
	Violations  []Violation      `json:"violations"`
	Notes       []string         `json:"notes,omitempty"`
	EngineError string           `json:"engine_error,omitempty"`
	WallS       float64          `json:"wall_s"`
	mu          sync.Mutex
}

func NewReport(property, part string) *Report {
	i, n := Shard()
	return &Report{Property: property, Part: part, Shard: fmt.Sprintf("%d/%d", i, n),
		Counters: map[string]int64{}, Outcomes: map[string]int64{}, Exhaustive: true}
}

func (r *Report) Count(key string, n int64) {
	r.mu.Lock()
	r.Counters[key] += n
	r.mu.Unlock()
}

func (r *Report) Outcome(key string) {
	r.mu.Lock()
	r.Outcomes[key]++
	r.mu.Unlock()
}

func (r *Report) Sample(s interface{}, max int) {
	r.mu.Lock()
	if len(r.Samples) < max {
		r.Samples = append(r.Samples, s)
	}
	r.mu.Unlock()
}

func (r *Report) Note(s string) {
	r.mu.Lock()
	for _, n := range r.Notes {
		if n == s {
			r.mu.Unlock()
			return
		}
	}
	r.Notes = append(r.Notes, s)
	r.mu.Unlock()
}

// Violate records a failing case (at most 20 per classifier are kept).
func (r *Report) Violate(classifier, what string, replay interface{}) {
	r.mu.Lock()
	defer r.mu.Unlock()
	r.Counters["violations:"+classifier]++
	n := 0
	for _, v := range r.Violations {
		if v.Classifier == classifier {
			n++
		}
	}
	if n >= 20 {
		return
	}
	r.Violations = append(r.Violations, Violation{Property: r.Property, Test: os.Getenv("VERIF_TEST"), Classifier: classifier, What: what, Replay: replay})
}

func (r *Report) NViolations() int {
	r.mu.Lock()
	defer r.mu.Unlock()
	return len(r.Violations)
}

// Write stores the report where the driver expects it (VERIF_OUT) or prints it.
func (r *Report) Write() {
	r.WallS = float64(nanotime()-startNano) / 1e9
	b, _ := json.MarshalIndent(r, "", " ")
	out := os.Getenv("VERIF_OUT")
	if out == "" {
		fmt.Println(string(b))
		return
	}
	if err := os.WriteFile(out, b, 0644); err != nil {
		panic(err)
	}
}

// ReplaySpec returns the replay case handed to this process, if any.
func ReplaySpec(v interface{}) bool {
	p := os.Getenv("VERIF_REPLAY")
	if p == "" {
		return false
	}
	b, err := os.ReadFile(p)
	if err != nil {
		panic(err)
	}
	var wrap struct {
		Replay json.RawMessage `json:"replay"`
	}
	if err := json.Unmarshal(b, &wrap); err != nil {
		panic(err)
	}
	if err := json.Unmarshal(wrap.Replay, v); err != nil {
		panic(err)
	}
	return true
}

// Epoch2011 advances the virtual clock of a fresh synctest bubble (which starts at
// 2000-01-01) to 2011-01-01: the code under test treats times before 2010 as implausible
// (stage.isFileReady restarts its log look-back when it gets "farther back than 2010"), and
// the vos shim recognises virtual times as lying before 2015.
func Epoch2011() {
	if d := time.Until(time.Date(2011, 1, 1, 0, 0, 0, 0, time.UTC)); d > 0 && time.Now().Year() < 2011 {
		time.Sleep(d)
	}
}
