package vh

import (
	"fmt"
	"sort"
	"strings"
)

// E-ENV: deviation-bounded enumeration of environment behaviour.
//
// A run of the end-to-end rig reports the environment actions it went through
// (each with a content-based key and the menu of alternatives the harness can
// take there). A plan is a set of deviations (key -> alternative). Exploration is
// a fixpoint: run the empty plan; for every action observed and every alternative
// form the extended plan; deduplicate on the canonical (sorted) form; run;
// repeat up to MaxDev deviations. Actions that exist only because of an earlier
// deviation (the retry, the recovery request, the second incarnation's actions)
// are discovered by the runs containing that deviation.

type Deviation struct {
	At string `json:"at"`
	Do string `json:"do"`
}

type EnvEvent struct {
	Key  string
	Menu []string
}

type EnvRun struct {
	Events  []EnvEvent
	Unused  []string // planned deviations whose action never happened
	Viol    string
	Class   string
	Outcome string
}

type EnvReplay struct {
	Scenario string      `json:"scenario"`
	Plan     []Deviation `json:"plan"`
}

type Env struct {
	Rep      *Report
	Scenario string
	Run      func(plan []Deviation) EnvRun
	MaxDev   int
	// Alternatives filters/chooses the alternatives explored at an action (nil = whole menu).
	Alternatives func(ev EnvEvent, plan []Deviation) []string
}

func canonPlan(p []Deviation) string {
	s := make([]string, len(p))
	for i, d := range p {
		s[i] = d.At + "\x00" + d.Do
	}
	sort.Strings(s)
	return strings.Join(s, "\x01")
}

func PlanString(p []Deviation) string {
	var s []string
	for _, d := range p {
		s = append(s, d.At+" => "+d.Do)
	}
	return "{" + strings.Join(s, " ; ") + "}"
}

// Explore returns false if cut short by the internal deadline.
func (e *Env) Explore() bool {
	var rc EnvReplay
	if ReplaySpec(&rc) {
		if rc.Scenario != e.Scenario {
			return true
		}
		r := e.Run(rc.Plan)
		e.Rep.Executions++
		if r.Viol != "" {
			e.Rep.Violate(r.Class, r.Viol, rc)
		}
		return true
	}
	seen := map[string]bool{"": true}
	frontier := [][]Deviation{nil}
	item := 0
	for size := 0; size <= e.MaxDev && len(frontier) > 0; size++ {
		var next [][]Deviation
		for _, plan := range frontier {
			if DeadlinePassed() {
				e.Rep.Exhaustive = false
				e.Rep.Note(fmt.Sprintf("[%s] internal deadline reached while running plans with %d deviation(s); all plans with fewer deviations were covered", e.Scenario, size))
				return false
			}
			if size == 1 {
				item++
				if !Mine(item) {
					continue
				}
			}
			shard0, _ := Shard()
			counted := size >= 1 || shard0 == 0
			r := e.Run(plan)
			if counted {
				e.Rep.Executions++
				e.Rep.States++
				e.Rep.Transitions += int64(len(r.Events))
				if size > 0 {
					e.Rep.Nontrivial++
				}
				if r.Outcome != "" {
					e.Rep.Outcome(e.Scenario + ": " + r.Outcome)
				}
				e.Rep.Count(fmt.Sprintf("plans[%s] with %d deviations", e.Scenario, size), 1)
			}
			if r.Viol != "" {
				again := 0
				for k := 0; k < 2; k++ {
					if rr := e.Run(plan); rr.Viol != "" {
						again++
					}
				}
				what := r.Viol
				if again < 2 {
					what = fmt.Sprintf("[schedule-dependent: reproduced in %d of 2 re-runs] %s", again, r.Viol)
				}
				if counted || size == 0 {
					e.Rep.Violate(r.Class, fmt.Sprintf("[%s] plan %s: %s", e.Scenario, PlanString(plan), what), EnvReplay{Scenario: e.Scenario, Plan: plan})
				}
				continue
			}
			if len(r.Unused) > 0 {
				// a planned action never happened: this run equals that of a smaller plan
				if counted {
					e.Rep.Count("plans with an unreached deviation", 1)
				}
				continue
			}
			if e.Rep.States%211 == 1 && counted {
				e.Rep.Sample(EnvReplay{Scenario: e.Scenario, Plan: plan}, 8)
			}
			if size == e.MaxDev {
				continue
			}
			inPlan := map[string]bool{}
			for _, d := range plan {
				inPlan[d.At] = true
			}
			// Only actions after the last planned deviation are extended: the set {A, B} with A
			// happening first is reached from {A} (up to A, and then up to B, the runs of {A} and
			// {A, B} coincide), so nothing is lost and no set is generated twice.
			last := -1
			for i, ev := range r.Events {
				if inPlan[ev.Key] {
					last = i
				}
			}
			for i, ev := range r.Events {
				if i <= last || inPlan[ev.Key] {
					continue
				}
				alts := ev.Menu
				if e.Alternatives != nil {
					alts = e.Alternatives(ev, plan)
				}
				for _, a := range alts {
					np := append(append([]Deviation{}, plan...), Deviation{At: ev.Key, Do: a})
					c := canonPlan(np)
					if seen[c] {
						continue
					}
					seen[c] = true
					next = append(next, np)
				}
			}
		}
		frontier = next
	}
	return true
}
