package vh

import (
	_ "unsafe" // go:linkname
)

// nanotime is the runtime's monotonic clock; unlike time.Now it is not
// virtualised inside a synctest bubble.
//
//go:linkname nanotime runtime.nanotime
func nanotime() int64
