package vh

import (
	"context"
	"errors"
	"net"
	nethttp "net/http"
	"sync"

	"github.com/arm-doe/sts/internal/verif/vnet"
)

// MemNet is the in-memory network the end-to-end rig runs on: listeners are
// registered by port through the vnet shim (http/util.go's net.Listen), clients
// reach them through net/http's DefaultTransport.DialContext, which the sts client
// clones. Connections are net.Pipe pairs (channel based, hence usable inside a
// testing/synctest bubble).
type MemNet struct {
	mu        sync.Mutex
	listeners map[string]*memListener
	// Refuse, when set, makes Dial fail for the address (receiver unavailable).
	Refuse func(addr string) bool
	Dials  int
}

type memListener struct {
	addr   string
	ch     chan net.Conn
	closed chan struct{}
	once   sync.Once
	net    *MemNet
}

type memAddr string

func (a memAddr) Network() string { return "mem" }
func (a memAddr) String() string  { return string(a) }

func port(addr string) string {
	_, p, err := net.SplitHostPort(addr)
	if err != nil {
		return addr
	}
	return p
}

// Install makes n the network of this process (until Uninstall).
func (n *MemNet) Install() {
	n.listeners = map[string]*memListener{}
	vnet.ListenHook = func(network, address string) (net.Listener, error) {
		n.mu.Lock()
		defer n.mu.Unlock()
		p := port(address)
		if _, ok := n.listeners[p]; ok {
			return nil, errors.New("memnet: address in use: " + address)
		}
		l := &memListener{addr: address, ch: make(chan net.Conn), closed: make(chan struct{}), net: n}
		n.listeners[p] = l
		return l, nil
	}
	tr := nethttp.DefaultTransport.(*nethttp.Transport)
	tr.DialContext = func(ctx context.Context, network, addr string) (net.Conn, error) {
		return n.Dial(addr)
	}
}

func (n *MemNet) Uninstall() {
	vnet.ListenHook = nil
	nethttp.DefaultTransport.(*nethttp.Transport).DialContext = nil
}

func (n *MemNet) Dial(addr string) (net.Conn, error) {
	n.mu.Lock()
	n.Dials++
	l := n.listeners[port(addr)]
	refuse := n.Refuse != nil && n.Refuse(addr)
	n.mu.Unlock()
	if l == nil || refuse {
		return nil, errors.New("memnet: connection refused: " + addr)
	}
	c, s := net.Pipe()
	select {
	case l.ch <- s:
		return c, nil
	case <-l.closed:
		return nil, errors.New("memnet: connection refused (listener closed): " + addr)
	}
}

func (l *memListener) Accept() (net.Conn, error) {
	select {
	case c := <-l.ch:
		return c, nil
	case <-l.closed:
		return nil, errors.New("memnet: listener closed")
	}
}

func (l *memListener) Close() error {
	l.once.Do(func() {
		close(l.closed)
		l.net.mu.Lock()
		delete(l.net.listeners, port(l.addr))
		l.net.mu.Unlock()
	})
	return nil
}

func (l *memListener) Addr() net.Addr { return memAddr(l.addr) }
