#!/bin/sh
# Builds the framework offline: shim generator + generated shims, and pre-builds
# the instrumented test binaries so that the first check does not pay for it.
set -e
cd "$(dirname "$0")"
export GOFLAGS=-mod=mod GOPROXY=off
unset GOSUMDB
rm -rf build
mkdir -p build evidence
(cd tools && go build -o ../build/genshim ./genshim)
python3 - <<'PY'
import sys, os
sys.argv = ["check"]
import importlib.machinery, importlib.util
loader = importlib.machinery.SourceFileLoader("check", os.path.join(os.getcwd(), "check"))
spec = importlib.util.spec_from_loader("check", loader)
m = importlib.util.module_from_spec(spec)
loader.exec_module(m)
overlay, tag = m.build_overlay()
pkgs = sorted({p["pkg"] for c in m.CHECKS.values() for p in c["parts"]})
for pkg in pkgs:
    m.build_bin(pkg, overlay, tag)
    print("built", pkg)
PY
echo setup done
