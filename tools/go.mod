module veriftools

go 1.25.0
