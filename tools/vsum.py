#!/usr/bin/env python3
"""tools/vsum.py <property> [width] [dir]: summarise violation replays by class and first line (numbers and hashes masked)."""
import json,glob,collections,re,sys
pid=sys.argv[1]; width=int(sys.argv[2]) if len(sys.argv)>2 else 200
d=sys.argv[3] if len(sys.argv)>3 else '/verif/replays/%s'%pid
c=collections.Counter(); ex={}
for f in sorted(glob.glob(d+'/*.json')):
    v=json.load(open(f))
    w=v['what'].split('\n')[0]
    k=re.sub(r"plan \{.*?\}: ","",w)
    k=re.sub(r"[0-9a-f]{32}","H",k); k=re.sub(r"[0-9.]+ ?s\b","Ns",k); k=re.sub(r"final=.*","",k)
    k=(v.get("classifier"),k[:width])
    c[k]+=1
    ex.setdefault(k,f)
for k,n in c.most_common():
    print(n,k,ex[k])
