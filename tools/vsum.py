#!/usr/bin/env python3
"""tools/vsum.py <property>: summarise the violation replays of a property by class and first line."""
import json,glob,collections,re,sys
pid=sys.argv[1]
c=collections.Counter(); ex={}
for f in sorted(glob.glob('/verif/replays/%s/*.json'%pid)):
    v=json.load(open(f))
    w=v['what'].split('\n')[0]
    k=(v.get("classifier"),re.sub(r"[0-9.]+ ?s","Ns",re.sub(r"plan \{.*?\}: ","",w))[:int(sys.argv[2]) if len(sys.argv)>2 else 200])
    c[k]+=1
    ex.setdefault(k,(f,w[:600]))
for k,n in c.most_common():
    print(n,k); print('     ',ex[k])
