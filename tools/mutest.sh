#!/bin/sh
# usage: tools/mutest.sh <property> <patch-file> [tier] [--with-tests]
# Applies the patch to a scratch worktree of /repo (under /tmp), optionally runs
# the repository's own tests there, runs the property's check against it, removes
# the worktree. Prints DETECTED / MISSED.
set -u
PID=$1; PATCH=$(realpath "$2"); TIER=${3:-quick}; WT=/tmp/mut-$$-$(basename "$PATCH" .patch)
export GOFLAGS=-mod=mod GOPROXY=off
git -C /repo worktree add -q --detach "$WT" HEAD || exit 3
trap 'git -C /repo worktree remove --force "$WT" >/dev/null 2>&1; rm -rf /verif/build/rw-$(printf %s "$WT" | md5sum | cut -c1-8) /verif/build/bin/*-$(printf %s "$WT" | md5sum | cut -c1-8).test /verif/build/overlay-$(printf %s "$WT" | md5sum | cut -c1-8).json /verif/build/evidence-$(printf %s "$WT" | md5sum | cut -c1-8) /verif/build/replays-$(printf %s "$WT" | md5sum | cut -c1-8)' EXIT
if ! git -C "$WT" apply "$PATCH"; then echo "PATCH-FAILED $PATCH"; exit 3; fi
if [ "${4:-}" = "--with-tests" ]; then
  (cd "$WT" && go build ./... && go test -vet=off -count=1 ./... 2>&1 | grep -v '^ok\|no test files' | grep -v TestMisc | head -20)
fi
cd /verif
VERIF_REPO="$WT" ./check "$PID" "$TIER" > "/tmp/mut-$$.out" 2>&1; rc=$?
if [ $rc -eq 1 ] && grep -q "^VIOLATION property=$PID" "/tmp/mut-$$.out"; then
  echo "DETECTED $PID $(basename "$PATCH") :: $(grep -m1 'what:' /tmp/mut-$$.out | cut -c1-300)"
elif [ $rc -eq 0 ]; then
  echo "MISSED $PID $(basename "$PATCH")"
else
  echo "ERROR($rc) $PID $(basename "$PATCH")"; tail -20 "/tmp/mut-$$.out"
fi
rm -f "/tmp/mut-$$.out" "/tmp/mut-$$.ev"
