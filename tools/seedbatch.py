#!/usr/bin/env python3
"""tools/seedbatch.py <round-dir> <id>=<seed-name>[:<extra-prop>,..] ...: runs tools/seedcheck.py for each listed seed of a
round (patch.diff, seed_demo_test.go and RUN.txt '<pkg dir> <run regex>' in <round-dir>/<id>-out), sequentially."""
import sys, os, subprocess
rd = sys.argv[1]
for spec in sys.argv[2:]:
    id, rest = spec.split("=", 1)
    name, _, extra = rest.partition(":")
    out = "%s/%s-out" % (rd, id)
    pkg, rx = open(out + "/RUN.txt").read().split(None, 1)
    rx = rx.strip().strip("'\"")
    pkg = pkg.rstrip("/")
    dest = ("seed_demo_test.go" if pkg in (".", "./") else pkg.lstrip("./") + "/seed_demo_test.go")
    props = id + ("," + extra if extra else "")
    print("=== %s (%s) %s %s" % (id, name, pkg, rx), flush=True)
    r = subprocess.run(["python3", "/verif/tools/seedcheck.py", out, "seed_demo_test.go=" + dest, pkg if pkg != "./" else ".", rx, "--props", props, "--keep", name],
                       stdout=subprocess.PIPE, stderr=subprocess.STDOUT, text=True)
    for l in r.stdout.splitlines():
        if l.startswith("check") or "CONFIRMED" in l or "FAILED" in l or "differences" in l or "demo on unchanged" in l:
            print(l[:600], flush=True)
