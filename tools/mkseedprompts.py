#!/usr/bin/env python3
"""tools/mkseedprompts.py <round-dir> <id> [<id> ...]: creates a scratch worktree of /repo and a self-contained prompt
(<round-dir>/<id>-out/PROMPT.txt) per property for an independent sub-agent that is asked to plant a property-breaking
change. The prompt contains the property text only - nothing from /verif's machinery."""
import json, glob, os, subprocess, sys
rd = sys.argv[1]; ids = sys.argv[2:]
TMPL = '''You are testing how good a verification harness is, by writing a realistic BUG for it to find. You work ONLY in your own scratch git worktree of the Go project ARM-DOE/sts at __WT__ (a detached checkout; do NOT touch /repo, do NOT read or touch /verif, do not use `git stash` — the stash is shared between worktrees; to save and restore your change use `git diff > __RD__/__ID__-out/patch.diff; git checkout -- .; git apply __RD__/__ID__-out/patch.diff`).

Shell environment for every go command: `export GOFLAGS=-mod=mod GOPROXY=off` (do NOT set GOSUMDB or GOTOOLCHAIN). There is no network. The project's test suite is `cd __WT__ && go test -vet=off -count=1 ./...` (takes about 1-2 minutes, more when the machine is busy; http's TestMisc is known to fail in this sandbox and may be ignored; the cache and log packages use fixed directories under /var/tmp and may fail spuriously when several people run them at once — re-run them alone before believing such a failure).

The property (read it carefully; it is the only specification you get):

__PROPERTY__

Your task:
1. Read the code the property is anchored in, and understand how the implementation makes the property hold.
2. Make ONE small, realistic change to the NON-test source (the kind of mistake a maintainer could make in a refactoring, an optimisation or a well-meant "simplification": a check moved outside a lock, a cursor advanced too early, a cache reused, a boundary condition off by one, a state consulted too early, a condition that is only right for the common case ...) such that:
   - the project still compiles and the whole existing test suite still passes (run it, and say so),
   - the property above is BROKEN for some input / history / schedule / crash point,
   - preferably the breakage needs something SPECIFIC to manifest (a particular ordering, a second occurrence of a name, a particular size relation, a restart at a particular moment, two things happening concurrently, an unusual but legal configuration value ...) rather than failing on the very first trivial use. Avoid changes that break the common path in an obvious way, and avoid changes that merely delete a whole feature.
   - Do not change exported function signatures or configuration formats. Do not edit existing tests.
3. Write a demonstration: a new Go test file named `seed_demo_test.go` in the package it tests (package-internal tests are fine) with one test that exercises the real code, PASSES on the unchanged tree and FAILS with your change, and whose failure message shows the property being violated (not just "something differs"). The test must be deterministic (if it needs concurrency, force the order with channels / hooks you can reach from a test, or repeat until the bad interleaving is certain within a second or two).
4. Verify: (a) with the change applied and the demo file REMOVED the full existing suite passes; (b) demo fails with the change; (c) `git checkout -- .` (keep your demo file), demo passes on the unchanged tree.
5. Leave in __RD__/__ID__-out/: `patch.diff` (output of `git diff` for the source change only, NOT containing the demo file), the demo test file `seed_demo_test.go`, a one-line file `RUN.txt` of the form `<package directory> <run regex>` (e.g. `./stage ^TestSeedDemoX$`), and `README.md` saying: which file/function you changed and why it looks innocent, exactly what it needs to manifest, and the outputs you observed for (a), (b), (c).
   Finally leave your worktree with the change NOT applied (git checkout -- .) and the demo file removed from it.

A change different in kind from these already-used ideas is wanted (do not repeat them): __USED__

Report back in a few lines: the change, what it needs to manifest, demo package directory + run regex, and the three verification results.
'''
used = {}
for d in sorted(glob.glob('/verif/seeded/*')):
    m = json.load(open(d + '/meta.json'))
    used.setdefault(m['property'], []).append(os.path.basename(d) + " (" + str(m.get('needs')) + ")")
for id in ids:
    os.makedirs('%s/%s-out' % (rd, id), exist_ok=True)
    subprocess.run(['git', '-C', '/repo', 'worktree', 'add', '-q', '--detach', '%s/%s' % (rd, id), 'HEAD'], check=True)
    for l in open('/verif/properties.jsonl'):
        p = json.loads(l)
        if p['id'] == id:
            prop = "PROPERTY %s: %s\n\nStatement: %s\n\nQuantifier: %s\n\nCode the property is anchored in: %s\n" % (
                id, p['title'], p['statement'], p['quantifier']['text'], ", ".join(p['anchors']['files']))
    t = TMPL.replace('__WT__', '%s/%s' % (rd, id)).replace('__RD__', rd).replace('__ID__', id).replace('__PROPERTY__', prop).replace('__USED__', "; ".join(used.get(id, [])) or "(none yet)")
    open('%s/%s-out/PROMPT.txt' % (rd, id), 'w').write(t)
print("prepared", ids)
