#!/usr/bin/env python3
"""tools/seedcheck.py <seed-dir> <demo-file>=<dest-rel-path>[,...] <go test pkg> <run-regex> [--props C01,C09] [--tier quick] [--keep <name>]

Confirms a seeded property-breaking change independently, in a fresh scratch worktree of /repo:
  1. demo passes on the unchanged tree
  2. patch applies, module builds, the repository's tests give the same verdicts as before
  3. demo fails with the patch
then runs the named properties' checks against the patched worktree (VERIF_REPO) and reports
DETECTED / MISSED per property. With --keep the seed is stored as /verif/seeded/<name>/.
The worktree is removed at the end."""
import sys, os, subprocess, json, shutil, hashlib, re, time

def sh(cmd, cwd=None, env=None, timeout=3000):
    e = dict(os.environ); e.update({"GOFLAGS": "-mod=mod", "GOPROXY": "off"}); e.pop("GOSUMDB", None)
    if env: e.update(env)
    r = subprocess.run(cmd, cwd=cwd, env=e, shell=isinstance(cmd, str), stdout=subprocess.PIPE, stderr=subprocess.STDOUT, text=True, timeout=timeout)
    return r.returncode, r.stdout

def suite(wt):
    rc, out = sh("go test -vet=off -count=1 ./... 2>&1", cwd=wt)
    verdict = {}
    for line in out.splitlines():
        m = re.match(r"^(ok|FAIL|---|\?)\s+(\S+)", line)
        if line.startswith("ok") or line.startswith("FAIL\t") or line.startswith("?"):
            parts = line.split()
            if len(parts) >= 2:
                verdict[parts[1]] = parts[0]
        if line.startswith("--- FAIL"):
            verdict["test:" + line.split()[2]] = "FAIL"
    return verdict, out

def main():
    seed = os.path.abspath(sys.argv[1]); demos = sys.argv[2]; pkg = sys.argv[3]; rx = sys.argv[4]
    props, tier, keep = [], "quick", None
    a = sys.argv[5:]
    while a:
        if a[0] == "--props": props = a[1].split(","); a = a[2:]
        elif a[0] == "--tier": tier = a[1]; a = a[2:]
        elif a[0] == "--keep": keep = a[1]; a = a[2:]
        else: sys.exit("bad arg " + a[0])
    wt = "/tmp/sv-%d" % os.getpid()
    rc, out = sh(["git", "-C", "/repo", "worktree", "add", "-q", "--detach", wt, "HEAD"])
    if rc: sys.exit(out)
    tag = hashlib.md5(wt.encode()).hexdigest()[:8]
    result = {"seed": seed, "ran": []}
    ok = True
    try:
        base_v, _ = suite(wt)
        for d in demos.split(","):
            src, dst = d.split("=")
            os.makedirs(os.path.dirname(os.path.join(wt, dst)), exist_ok=True)
            shutil.copy(os.path.join(seed, src), os.path.join(wt, dst))
        demo_cmd = "go test -vet=off -count=1 -run '%s' %s 2>&1" % (rx, pkg)
        rc, out = sh(demo_cmd, cwd=wt)
        print("demo on unchanged tree: rc=%d" % rc); result["ran"].append(demo_cmd + " (unchanged tree): rc=%d" % rc)
        if rc != 0:
            print(out[-1500:]); ok = False
        rc, out = sh(["git", "apply", os.path.join(seed, "patch.diff")], cwd=wt)
        if rc: print("PATCH FAILED", out); ok = False
        rc, out = sh("go build ./... 2>&1", cwd=wt)
        print("build with patch: rc=%d" % rc)
        if rc: print(out[-1500:]); ok = False
        rc, out = sh(demo_cmd, cwd=wt)
        print("demo with patch: rc=%d" % rc); result["ran"].append(demo_cmd + " (patched): rc=%d" % rc)
        if rc == 0: ok = False
        else: print("   ", "\n    ".join([l for l in out.splitlines() if "FAIL" in l or "rror" in l][:6]))
        for d in demos.split(","):
            os.remove(os.path.join(wt, d.split("=")[1]))
        pv, pout = suite(wt)
        result["ran"].append("go test -vet=off -count=1 ./... (patched, demo removed)")
        def regress(pv):
            return {k: (base_v.get(k), pv.get(k)) for k in pv if pv.get(k) == "FAIL" and base_v.get(k) != "FAIL" and "TestMisc" not in k and not k.endswith("/http")}
        diff = regress(pv)
        if diff:  # the log tests share a directory under /tmp: retry once in case another suite ran concurrently
            time.sleep(5)
            pv, pout = suite(wt)
            diff = regress(pv)
        # http package: TestMisc fails in the baseline already; compare other http tests by name
        print("suite verdict differences (excluding http TestMisc):", diff or "none")
        if diff: ok = False
        print("SEED %s" % ("CONFIRMED" if ok else "NOT CONFIRMED"))
        result["confirmed"] = ok
        det = {}
        for p in props:
            t0 = time.time()
            rc, out = sh(["./check", p, tier], cwd="/verif", env={"VERIF_REPO": wt}, timeout=7200)
            v = [l for l in out.splitlines() if l.startswith("VIOLATION")]
            w = [l for l in out.splitlines() if l.strip().startswith("what:")]
            st = "DETECTED" if rc == 1 and v else ("MISSED" if rc == 0 else "ERROR(%d)" % rc)
            det[p] = st
            print("check %s %s: %s (%.0fs) %s" % (p, tier, st, time.time() - t0, (w[0][:300] if w else "")))
            if st.startswith("ERROR"): print(out[-2000:])
        result["detected_by"] = det
        if keep and ok:
            dst = os.path.join("/verif/seeded", keep)
            os.makedirs(dst, exist_ok=True)
            shutil.copy(os.path.join(seed, "patch.diff"), dst)
            for d in demos.split(","):
                shutil.copy(os.path.join(seed, d.split("=")[0]), dst)
            open(os.path.join(dst, "RUN.txt"), "w").write("%s %s\n" % (pkg, rx))
            for extra in ("NOTES.md", "DEMO_PATH.txt", "README.md"):
                if os.path.exists(os.path.join(seed, extra)): shutil.copy(os.path.join(seed, extra), dst)
            meta_path = os.path.join(dst, "meta.json")
            meta = json.load(open(meta_path)) if os.path.exists(meta_path) else {}
            meta.update({"demo": demos, "demo_cmd": demo_cmd, "confirmed": ok, "ran": result["ran"]})
            meta.setdefault("property", keep[:3])
            meta.setdefault("detected_by", {}).update({"%s/%s" % (p, tier): s for p, s in det.items()})
            json.dump(meta, open(meta_path, "w"), indent=1)
    finally:
        sh(["git", "-C", "/repo", "worktree", "remove", "--force", wt])
        for p in ("rw-" + tag, "overlay-%s.json" % tag, "evidence-" + tag, "replays-" + tag):
            q = os.path.join("/verif/build", p)
            if os.path.isdir(q): shutil.rmtree(q, ignore_errors=True)
            elif os.path.exists(q): os.remove(q)
        for f in os.listdir("/verif/build/bin") if os.path.isdir("/verif/build/bin") else []:
            if f.endswith("-%s.test" % tag): os.remove(os.path.join("/verif/build/bin", f))

main()
