#!/usr/bin/env python3
"""tools/mkmut.py <property> <name> <repo-relative file> <old> <new> [<file2> <old2> <new2> ...]
Writes mutants/<property>/<name>.patch replacing the first occurrence of <old> by <new>."""
import sys, os, subprocess, tempfile
pid, name = sys.argv[1], sys.argv[2]
triples = sys.argv[3:]
out = []
for i in range(0, len(triples), 3):
    rel, old, new = triples[i:i+3]
    src = open(os.path.join('/repo', rel)).read()
    if src.count(old) < 1:
        sys.exit("pattern not found in %s: %r" % (rel, old))
    mod = src.replace(old, new, 1)
    with tempfile.NamedTemporaryFile('w', suffix='.go', delete=False) as f:
        f.write(mod)
    r = subprocess.run(['diff', '-u', '--label', 'a/' + rel, '--label', 'b/' + rel, os.path.join('/repo', rel), f.name], stdout=subprocess.PIPE, text=True)
    os.unlink(f.name)
    out.append(r.stdout)
d = os.path.join('/verif/mutants', pid)
os.makedirs(d, exist_ok=True)
open(os.path.join(d, name + '.patch'), 'w').write(''.join(out))
print('wrote', os.path.join(d, name + '.patch'))
