// Package vos stands in for package "os" in the instrumented copies of the sts
// sources (import rewriting through go build -overlay; /repo is untouched).
// Every identifier of "os" is re-exported (zz_gen.go); the mutating path-level
// calls are wrapped so that
//   - a harness hook sees each one (crash point / scheduling point / fault),
//   - files and directories carry *virtual* modification times when the caller
//     runs inside a testing/synctest bubble (the kernel stamps real time, which
//     lies decades after the bubble's clock).
package vos

import (
	orig "os"
	"path/filepath"
	"sync"
	"syscall"
	"time"
	"unsafe"
)

// Hook, when set, is called before every mutating operation. It may park the
// calling goroutine, end it (runtime.Goexit) or return an error to inject.
var Hook func(op, path, path2 string) error

// TornWrites: WriteFile offers its intermediate states (file truncated; file written in part)
// to the hook as extra points "write-body". Set by the crash-point enumerations only.
var TornWrites bool

// After, when set, is called after every mutating operation that was executed.
var After func(op, path, path2 string)

var openTimes sync.Map // path -> time.Time (virtual time of last open-for-write)

func vnow() (time.Time, bool) {
	now := time.Now()
	return now, now.Year() < 2015
}

func looksReal(t, now time.Time) bool {
	return t.After(now.Add(5 * 365 * 24 * time.Hour))
}

func lutimes(path string, t time.Time) {
	ts := [2]syscall.Timespec{syscall.NsecToTimespec(t.UnixNano()), syscall.NsecToTimespec(t.UnixNano())}
	p, err := syscall.BytePtrFromString(path)
	if err != nil {
		return
	}
	const atFdcwd = -100
	const atSymlinkNofollow = 0x100
	_, _, _ = syscall.Syscall6(syscall.SYS_UTIMENSAT, uintptr(^uintptr(0)-99), uintptr(unsafe.Pointer(p)), uintptr(unsafe.Pointer(&ts[0])), atSymlinkNofollow, 0, 0)
	_ = atFdcwd
}

// Stamp sets the modification time of path itself (not following links).
func Stamp(path string, t time.Time) { lutimes(path, t) }

func stampNow(path string) {
	if now, ok := vnow(); ok {
		lutimes(path, now)
	}
}

func stampParent(path string) {
	if now, ok := vnow(); ok {
		lutimes(filepath.Dir(path), now)
	}
}

// Fix gives path a virtual modification time if it carries a real one.
func Fix(path string) {
	now, ok := vnow()
	if !ok {
		return
	}
	fi, err := orig.Lstat(path)
	if err != nil || !looksReal(fi.ModTime(), now) {
		return
	}
	t := now
	if v, ok := openTimes.Load(path); ok {
		t = v.(time.Time)
	}
	lutimes(path, t)
}

// FixTree applies Fix to everything under root (harness use, at quiescence).
func FixTree(root string) {
	if _, ok := vnow(); !ok {
		return
	}
	_ = filepath.Walk(root, func(p string, info orig.FileInfo, err error) error {
		if err == nil {
			Fix(p)
		}
		return nil
	})
}

func before(op, p1, p2 string) error {
	if h := Hook; h != nil {
		return h(op, p1, p2)
	}
	return nil
}

func after(op, p1, p2 string) {
	if a := After; a != nil {
		a(op, p1, p2)
	}
}

func Stat(name string) (FileInfo, error) {
	if now, ok := vnow(); ok {
		if fi, err := orig.Lstat(name); err == nil {
			if fi.Mode()&orig.ModeSymlink != 0 {
				if target, err := filepath.EvalSymlinks(name); err == nil {
					Fix(target)
				}
			} else if looksReal(fi.ModTime(), now) {
				Fix(name)
			} else {
				return fi, nil
			}
		}
	}
	return orig.Stat(name)
}

func Lstat(name string) (FileInfo, error) {
	Fix(name)
	return orig.Lstat(name)
}

func Create(name string) (*File, error) {
	if err := before("create", name, ""); err != nil {
		return nil, err
	}
	f, err := orig.Create(name)
	if err == nil {
		if now, ok := vnow(); ok {
			openTimes.Store(name, now)
			lutimes(name, now)
			stampParent(name)
		}
	}
	after("create", name, "")
	return f, err
}

func OpenFile(name string, flag int, perm FileMode) (*File, error) {
	w := flag&(orig.O_WRONLY|orig.O_RDWR|orig.O_APPEND|orig.O_CREATE|orig.O_TRUNC) != 0
	if !w {
		return orig.OpenFile(name, flag, perm)
	}
	if err := before("openw", name, ""); err != nil {
		return nil, err
	}
	_, statErr := orig.Lstat(name)
	f, err := orig.OpenFile(name, flag, perm)
	if err == nil {
		if now, ok := vnow(); ok {
			openTimes.Store(name, now)
			if statErr != nil {
				lutimes(name, now)
				stampParent(name)
			}
		}
	}
	after("openw", name, "")
	return f, err
}

func WriteFile(name string, data []byte, perm FileMode) error {
	if err := before("write", name, ""); err != nil {
		return err
	}
	_, statErr := orig.Lstat(name)
	if TornWrites && Hook != nil {
		// WriteFile is open(O_TRUNC) + write + close: a process that dies in between leaves the
		// file empty, or (a large buffer, a full disk, a power failure) written in part. Both
		// states are offered to the crash enumeration as points of their own.
		if err := orig.WriteFile(name, nil, perm); err == nil {
			stampNow(name)
			if err := before("write-body", name, ""); err != nil {
				return err
			}
			if len(data) > 1 {
				_ = orig.WriteFile(name, data[:len(data)/2], perm)
				if err := before("write-body", name, ""); err != nil {
					return err
				}
			}
		}
	}
	err := orig.WriteFile(name, data, perm)
	if err == nil {
		openTimes.Delete(name)
		stampNow(name)
		if statErr != nil {
			stampParent(name)
		}
	}
	after("write", name, "")
	return err
}

func Rename(oldpath, newpath string) error {
	if err := before("rename", oldpath, newpath); err != nil {
		return err
	}
	Fix(oldpath)
	err := orig.Rename(oldpath, newpath)
	if err == nil {
		if v, ok := openTimes.LoadAndDelete(oldpath); ok {
			openTimes.Store(newpath, v)
		} else {
			openTimes.Delete(newpath)
		}
		stampParent(oldpath)
		stampParent(newpath)
	}
	after("rename", oldpath, newpath)
	return err
}

func Remove(name string) error {
	if err := before("remove", name, ""); err != nil {
		return err
	}
	err := orig.Remove(name)
	if err == nil {
		openTimes.Delete(name)
		stampParent(name)
	}
	after("remove", name, "")
	return err
}

func RemoveAll(path string) error {
	if err := before("removeall", path, ""); err != nil {
		return err
	}
	err := orig.RemoveAll(path)
	if err == nil {
		stampParent(path)
	}
	after("removeall", path, "")
	return err
}

func Mkdir(name string, perm FileMode) error {
	if err := before("mkdir", name, ""); err != nil {
		return err
	}
	err := orig.Mkdir(name, perm)
	if err == nil {
		stampNow(name)
		stampParent(name)
	}
	after("mkdir", name, "")
	return err
}

func MkdirAll(path string, perm FileMode) error {
	// Which directories are new?
	var missing []string
	for p := filepath.Clean(path); ; p = filepath.Dir(p) {
		if _, err := orig.Lstat(p); err == nil {
			break
		}
		missing = append(missing, p)
		if filepath.Dir(p) == p {
			break
		}
	}
	if len(missing) == 0 {
		// nothing changes on disk: not a mutation
		return orig.MkdirAll(path, perm)
	}
	if err := before("mkdirall", path, ""); err != nil {
		return err
	}
	err := orig.MkdirAll(path, perm)
	if err == nil {
		for _, p := range missing {
			stampNow(p)
		}
		stampParent(missing[len(missing)-1])
	}
	after("mkdirall", path, "")
	return err
}
