// Package vfilepath stands in for "path/filepath" in instrumented sts sources:
// Walk hands out virtual modification times (see package vos).
package vfilepath

import (
	"io/fs"
	orig "path/filepath"

	"github.com/arm-doe/sts/internal/verif/vos"
)

func Walk(root string, fn WalkFunc) error {
	return orig.Walk(root, func(p string, info fs.FileInfo, err error) error {
		if err == nil && info != nil {
			vos.Fix(p)
			if ni, e := vos.Lstat(p); e == nil {
				info = ni
			}
		}
		return fn(p, info, err)
	})
}
