// Package vnet stands in for "net" in the instrumented copy of http/util.go so
// that the server listens on the harness's in-memory network.
package vnet

import orig "net"

// ListenHook, when set, replaces net.Listen.
var ListenHook func(network, address string) (orig.Listener, error)

func Listen(network, address string) (Listener, error) {
	if h := ListenHook; h != nil {
		return h(network, address)
	}
	return orig.Listen(network, address)
}
