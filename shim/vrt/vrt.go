// Package vrt is the controlled scheduler of engine E-SCHED.
//
// Instrumented code (vsync lock operations, vos file-system mutations, rewritten
// `go` statements) calls Point before each synchronisation step. While a scheduler
// is active, Point parks the calling goroutine on a channel; the scheduler - running
// in the main goroutine of a testing/synctest bubble - waits for quiescence
// (synctest.Wait), computes which parked goroutines are enabled, releases exactly
// one of them according to the schedule being explored, and repeats. Goroutines that
// block natively (channel operations, timers, WaitGroups) are simply not parked; a
// goroutine woken natively runs, touching nothing shared, up to its next Point.
package vrt

import (
	"fmt"
	"runtime"
	"sort"
	"strings"
	"sync"
	"sync/atomic"
	"testing/synctest"
	"time"
)

// Op describes the step a goroutine is about to take.
type Op struct {
	Kind    string      // "lock", "rlock", "wlock-announce", "fs:rename", "go", "start", ...
	Obj     string      // free-text identity (for traces)
	Enabled func() bool // nil = always enabled
}

type thread struct {
	id      int
	name    string
	gid     uint64
	op      Op
	parked  bool
	wake    chan struct{}
	harness bool
	done    bool
}

// PointRec is one scheduling decision of an execution.
type PointRec struct {
	N          int    // number of enabled threads
	Chosen     int    // index taken (canonical order: running thread first if still enabled, then ascending id)
	CurEnabled bool   // the previously running thread was among the enabled ones (taking another one is a preemption)
	Sig        string // thread id + op kind of the step taken (divergence check on replay)
}

// Sched is one controlled execution.
type Sched struct {
	mu       sync.Mutex
	threads  map[uint64]*thread
	order    []*thread
	prefix   []int
	sigs     []string // expected signatures for the prefix (may be nil)
	Points   []PointRec
	Trace    []string
	cur      *thread
	abort    bool
	Deadlock string // non-empty: description of the deadlock found
	Diverged string // non-empty: replay of the prefix diverged
	Horizon  time.Duration
	Step     time.Duration
	MaxSteps int
	nHarness int
	Timeouts int           // number of times virtual time had to advance
	Extra    time.Duration // after all harness threads are done: let this much virtual time pass (timers)
	// Free: no control at all - harness threads are plain goroutines, Point is a no-op and
	// the lock shim uses its scheduler-less fallback. Used by the separate free-running
	// `-race` pass (a cooperative scheduler's hand-offs are happens-before edges that blind
	// the race detector).
	Free bool
}

var active atomic.Pointer[Sched]

// OnNotify receives the probes the rewriter plants in generated copies of the code under
// test (never in /repo), e.g. Notify("delPathLock", key). Harnesses use them to classify
// what they observe; they have no effect on the execution.
var OnNotify func(what, arg string)

func Notify(what, arg string) {
	if f := OnNotify; f != nil {
		f(what, arg)
	}
}

// Active returns the scheduler controlling the current execution, if any.
func Active() *Sched { return active.Load() }

// Goid returns the id of the calling goroutine.
func Goid() uint64 { return goid() }

func goid() uint64 {
	var buf [64]byte
	n := runtime.Stack(buf[:], false)
	// "goroutine 123 ["
	var id uint64
	for _, c := range buf[10:n] {
		if c < '0' || c > '9' {
			break
		}
		id = id*10 + uint64(c-'0')
	}
	return id
}

// New creates a scheduler that follows prefix and then always takes choice 0.
func New(prefix []int, sigs []string) *Sched {
	return &Sched{threads: map[uint64]*thread{}, prefix: prefix, sigs: sigs, Horizon: 2 * time.Minute, Step: time.Second, MaxSteps: 20000}
}

func (s *Sched) newThread(name string, harness bool) *thread {
	t := &thread{id: len(s.order), name: name, harness: harness}
	if name == "" {
		t.name = fmt.Sprintf("g%d", t.id)
	}
	s.order = append(s.order, t)
	return t
}

// threadFor returns the thread of goroutine g; goroutines the scheduler has not seen
// being started (timer callbacks, goroutines started before it became active) get
// their identity at their first scheduling point.
func (s *Sched) threadFor(g uint64) *thread {
	t := s.threads[g]
	if t == nil {
		t = s.newThread("", false)
		t.gid = g
		s.threads[g] = t
	}
	return t
}

// Point is called by instrumented code before a synchronisation step.
func Point(op Op) {
	s := active.Load()
	if s == nil {
		return
	}
	s.point(op, nil)
}

func (s *Sched) point(op Op, t *thread) {
	s.mu.Lock()
	if s.abort {
		s.mu.Unlock()
		runtime.Goexit()
	}
	if t == nil {
		t = s.threadFor(goid())
	} else if t.gid == 0 {
		t.gid = goid()
		s.threads[t.gid] = t
	}
	t.op = op
	t.parked = true
	t.wake = make(chan struct{})
	w := t.wake
	s.mu.Unlock()
	<-w
	s.mu.Lock()
	ab := s.abort
	s.mu.Unlock()
	if ab {
		runtime.Goexit()
	}
}

// Aborting tells instrumented primitives that the execution is being torn down
// (model locks are then no-ops).
func (s *Sched) Aborting() bool {
	s.mu.Lock()
	defer s.mu.Unlock()
	return s.abort
}

// NewFree creates a scheduler that controls nothing (see Sched.Free).
func NewFree() *Sched {
	s := New(nil, nil)
	s.Free = true
	return s
}

// Go starts a harness thread. Its identity is fixed here, in program order.
func (s *Sched) Go(name string, fn func()) {
	if s.Free {
		s.mu.Lock()
		s.nHarness++
		s.mu.Unlock()
		go func() {
			defer func() {
				s.mu.Lock()
				s.nHarness--
				s.mu.Unlock()
			}()
			fn()
		}()
		return
	}
	s.mu.Lock()
	s.nHarness++
	t := s.newThread(name, true)
	s.mu.Unlock()
	go func() {
		defer func() {
			s.mu.Lock()
			s.nHarness--
			s.mu.Unlock()
		}()
		s.point(Op{Kind: "start", Obj: name}, t)
		fn()
	}()
}

// Go is what a rewritten `go f(x)` statement calls: the new goroutine takes a
// scheduling point before its first instruction; its identity is fixed by the
// spawning statement's position in the execution.
func Go(fn func()) {
	s := active.Load()
	if s == nil {
		go fn()
		return
	}
	s.mu.Lock()
	t := s.newThread("", false)
	s.mu.Unlock()
	go func() {
		s.point(Op{Kind: "go"}, t)
		fn()
	}()
}

func (s *Sched) harnessLeft() int {
	s.mu.Lock()
	defer s.mu.Unlock()
	return s.nHarness
}

// Run is the scheduler loop; call it from the bubble's main goroutine after the
// harness threads were started with Go. It returns when all harness threads have
// finished and nothing is parked, or with Deadlock / Diverged set.
func (s *Sched) Run() {
	if s.Free {
		var waited time.Duration
		for {
			synctest.Wait()
			if s.harnessLeft() == 0 {
				if s.Extra > 0 {
					time.Sleep(s.Extra)
					synctest.Wait()
				}
				return
			}
			if waited >= s.Horizon {
				s.Deadlock = fmt.Sprintf("%d harness thread(s) still blocked after %s of virtual time (free-running)", s.harnessLeft(), s.Horizon)
				return
			}
			time.Sleep(s.Step)
			waited += s.Step
		}
	}
	active.Store(s)
	defer active.Store(nil)
	var waited time.Duration
	extraLeft := s.Extra
	for steps := 0; ; steps++ {
		synctest.Wait()
		s.mu.Lock()
		var parked, enabled []*thread
		for _, t := range s.order {
			if t.parked {
				parked = append(parked, t)
				if t.op.Enabled == nil || t.op.Enabled() {
					enabled = append(enabled, t)
				}
			}
		}
		left := s.nHarness
		s.mu.Unlock()
		if steps > s.MaxSteps {
			s.Deadlock = fmt.Sprintf("step limit %d reached (livelock?)", s.MaxSteps)
			break
		}
		if len(enabled) == 0 {
			if left == 0 && len(parked) == 0 {
				if extraLeft > 0 {
					time.Sleep(s.Step)
					extraLeft -= s.Step
					s.Timeouts++
					continue
				}
				break // done
			}
			// nobody can move: let virtual time pass (timers), up to the horizon
			if waited >= s.Horizon {
				var desc []string
				for _, t := range parked {
					desc = append(desc, fmt.Sprintf("%s blocked at %s %s", t.name, t.op.Kind, t.op.Obj))
				}
				if len(parked) == 0 {
					desc = append(desc, fmt.Sprintf("%d harness thread(s) blocked natively", left))
				}
				s.Deadlock = strings.Join(desc, "; ")
				break
			}
			time.Sleep(s.Step)
			waited += s.Step
			s.Timeouts++
			continue
		}
		waited = 0
		// canonical order: the thread that ran last first (if enabled), then ascending id
		sort.SliceStable(enabled, func(i, j int) bool {
			ci, cj := enabled[i] == s.cur, enabled[j] == s.cur
			if ci != cj {
				return ci
			}
			return enabled[i].id < enabled[j].id
		})
		curEnabled := s.cur != nil && enabled[0] == s.cur
		k := len(s.Points)
		choice := 0
		if k < len(s.prefix) {
			choice = s.prefix[k]
			if choice >= len(enabled) {
				s.Diverged = fmt.Sprintf("point %d: prefix asks for choice %d of %d", k, choice, len(enabled))
				break
			}
		}
		t := enabled[choice]
		sig := fmt.Sprintf("%d:%s", t.id, t.op.Kind)
		if k < len(s.sigs) && s.sigs[k] != sig {
			s.Diverged = fmt.Sprintf("point %d: expected %s, found %s", k, s.sigs[k], sig)
			break
		}
		s.Points = append(s.Points, PointRec{N: len(enabled), Chosen: choice, CurEnabled: curEnabled, Sig: sig})
		if len(s.Trace) < 4000 {
			s.Trace = append(s.Trace, fmt.Sprintf("%s %s %s", t.name, t.op.Kind, t.op.Obj))
		}
		s.mu.Lock()
		t.parked = false
		s.cur = t
		close(t.wake)
		s.mu.Unlock()
	}
	if s.Deadlock != "" || s.Diverged != "" {
		// tear down: every parked goroutine ends, model locks become no-ops
		s.mu.Lock()
		s.abort = true
		for _, t := range s.order {
			if t.parked {
				t.parked = false
				close(t.wake)
			}
		}
		s.mu.Unlock()
		synctest.Wait()
	}
}

// Preemptions counts the preemptions among the first n decisions.
func Preemptions(points []PointRec, n int) int {
	c := 0
	for i := 0; i < n && i < len(points); i++ {
		if points[i].CurEnabled && points[i].Chosen != 0 {
			c++
		}
	}
	return c
}
