// Package vsync stands in for "sync" in the instrumented copies of the sts sources.
// Without an active scheduler (vrt.Active() == nil) every type behaves exactly like
// the real one. Under a scheduler, lock acquisition is a scheduling point that is
// enabled iff the lock is free; RWMutex follows Go's writer preference (a Lock call
// first becomes a pending writer, which blocks new readers), so recursive read
// locking across a pending writer shows up as a deadlock.
package vsync

import (
	orig "sync"

	"github.com/arm-doe/sts/internal/verif/vrt"
)

type WaitGroup = orig.WaitGroup
type Once = orig.Once
type Map = orig.Map
type Pool = orig.Pool
type Cond = orig.Cond
type Locker = orig.Locker

var NewCond = orig.NewCond

type Mutex struct {
	real orig.Mutex
	held bool
	used bool // ever used under the scheduler: from then on only the model state counts
}

func (m *Mutex) Lock() {
	if s := vrt.Active(); s != nil {
		m.used = true
		vrt.Point(vrt.Op{Kind: "lock", Enabled: func() bool { return !m.held }})
		m.held = true
		return
	}
	if m.used { // tear-down after the scheduler has gone: single-threaded, no blocking
		m.held = true
		return
	}
	m.real.Lock()
}

func (m *Mutex) Unlock() {
	if m.used {
		m.held = false
		return
	}
	m.real.Unlock()
}

func (m *Mutex) TryLock() bool {
	if vrt.Active() != nil || m.used {
		m.used = true
		if m.held {
			return false
		}
		m.held = true
		return true
	}
	return m.real.TryLock()
}

type RWMutex struct {
	real    orig.RWMutex
	w       bool
	readers int
	pending int
	used    bool // ever used under the scheduler
}

func (m *RWMutex) Lock() {
	if vrt.Active() != nil {
		m.used = true
		vrt.Point(vrt.Op{Kind: "wlock-announce"})
		m.pending++
		vrt.Point(vrt.Op{Kind: "wlock", Enabled: func() bool { return !m.w && m.readers == 0 }})
		m.pending--
		m.w = true
		return
	}
	if m.used {
		m.w = true
		return
	}
	m.real.Lock()
}

func (m *RWMutex) Unlock() {
	if m.used {
		m.w = false
		return
	}
	m.real.Unlock()
}

func (m *RWMutex) RLock() {
	if vrt.Active() != nil {
		m.used = true
		vrt.Point(vrt.Op{Kind: "rlock", Enabled: func() bool { return !m.w && m.pending == 0 }})
		m.readers++
		return
	}
	if m.used {
		m.readers++
		return
	}
	m.real.RLock()
}

func (m *RWMutex) RUnlock() {
	if m.used {
		if m.readers > 0 {
			m.readers--
		}
		return
	}
	m.real.RUnlock()
}

func (m *RWMutex) RLocker() Locker { return (*rlocker)(m) }

type rlocker RWMutex

func (r *rlocker) Lock()   { (*RWMutex)(r).RLock() }
func (r *rlocker) Unlock() { (*RWMutex)(r).RUnlock() }
