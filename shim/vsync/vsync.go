// Package vsync stands in for "sync" in the instrumented copies of the sts sources.
// Without an active scheduler (vrt.Active() == nil) every type behaves exactly like
// the real one. Under a scheduler, lock acquisition is a scheduling point that is
// enabled iff the lock is free; RWMutex follows Go's writer preference (a Lock call
// first becomes a pending writer, which blocks new readers), so recursive read
// locking across a pending writer shows up as a deadlock.
package vsync

import (
	orig "sync"

	"github.com/arm-doe/sts/internal/verif/vrt"
)

type WaitGroup = orig.WaitGroup
type Once = orig.Once
type Map = orig.Map
type Pool = orig.Pool
type Cond = orig.Cond
type Locker = orig.Locker

var NewCond = orig.NewCond

// durable is the lock used when no scheduler is active. Waiting happens on a channel, so a
// goroutine that waits for a lock inside a testing/synctest bubble is *durably* blocked and
// virtual time can advance while another goroutine holds the lock across a sleep (a real
// sync.Mutex wait would stall the bubble's clock for good). Writers have preference, as with
// sync.RWMutex.
type durable struct {
	mu       orig.Mutex // guards the fields below, never held while blocking
	writer   bool
	readers  int
	pendingW int
	waiters  []chan struct{}
}

func (d *durable) wake() {
	for _, c := range d.waiters {
		close(c)
	}
	d.waiters = nil
}

func (d *durable) wait() {
	c := make(chan struct{})
	d.waiters = append(d.waiters, c)
	d.mu.Unlock()
	<-c
	d.mu.Lock()
}

func (d *durable) lock() {
	d.mu.Lock()
	d.pendingW++
	for d.writer || d.readers > 0 {
		d.wait()
	}
	d.pendingW--
	d.writer = true
	d.mu.Unlock()
}

func (d *durable) unlock() {
	d.mu.Lock()
	d.writer = false
	d.wake()
	d.mu.Unlock()
}

func (d *durable) rlock() {
	d.mu.Lock()
	for d.writer || d.pendingW > 0 {
		d.wait()
	}
	d.readers++
	d.mu.Unlock()
}

func (d *durable) runlock() {
	d.mu.Lock()
	d.readers--
	d.wake()
	d.mu.Unlock()
}

func (d *durable) trylock() bool {
	d.mu.Lock()
	defer d.mu.Unlock()
	if d.writer || d.readers > 0 {
		return false
	}
	d.writer = true
	return true
}

type Mutex struct {
	real durable
	held bool
	used bool // ever used under the scheduler: from then on only the model state counts
}

func (m *Mutex) Lock() {
	if s := vrt.Active(); s != nil {
		m.used = true
		vrt.Point(vrt.Op{Kind: "lock", Enabled: func() bool { return !m.held }})
		m.held = true
		return
	}
	if m.used { // tear-down after the scheduler has gone: single-threaded, no blocking
		m.held = true
		return
	}
	m.real.lock()
}

func (m *Mutex) Unlock() {
	if m.used {
		m.held = false
		return
	}
	m.real.unlock()
}

func (m *Mutex) TryLock() bool {
	if vrt.Active() != nil || m.used {
		m.used = true
		if m.held {
			return false
		}
		m.held = true
		return true
	}
	return m.real.trylock()
}

type RWMutex struct {
	real    durable
	w       bool
	readers int
	pending int
	used    bool // ever used under the scheduler
}

func (m *RWMutex) Lock() {
	if vrt.Active() != nil {
		m.used = true
		vrt.Point(vrt.Op{Kind: "wlock-announce"})
		m.pending++
		vrt.Point(vrt.Op{Kind: "wlock", Enabled: func() bool { return !m.w && m.readers == 0 }})
		m.pending--
		m.w = true
		return
	}
	if m.used {
		m.w = true
		return
	}
	m.real.lock()
}

func (m *RWMutex) Unlock() {
	if m.used {
		m.w = false
		return
	}
	m.real.unlock()
}

func (m *RWMutex) RLock() {
	if vrt.Active() != nil {
		m.used = true
		vrt.Point(vrt.Op{Kind: "rlock", Enabled: func() bool { return !m.w && m.pending == 0 }})
		m.readers++
		return
	}
	if m.used {
		m.readers++
		return
	}
	m.real.rlock()
}

func (m *RWMutex) RUnlock() {
	if m.used {
		if m.readers > 0 {
			m.readers--
		}
		return
	}
	m.real.runlock()
}

func (m *RWMutex) RLocker() Locker { return (*rlocker)(m) }

type rlocker RWMutex

func (r *rlocker) Lock()   { (*RWMutex)(r).RLock() }
func (r *rlocker) Unlock() { (*RWMutex)(r).RUnlock() }
