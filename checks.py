# Which exploration parts decide which property. Each part is one Go test function in an
# instrumented in-package test binary; `shards` = number of single-P worker processes.
CHECKS = {
 "C11": {
  "rule": "every (payload size, chunk size, file sizes[, missing ranges]) tuple within the stated bounds is run through the real queue -> binner -> payload path; non-trivial = some file spans several chunks/payloads or several files share a payload; distinct = distinct tuples",
  "assumptions": ["payload sizes >= 10 bytes (below that the 10% slack truncates to 0)", "chunk size 0 is replaced by the payload size as main/client.go does"],
  "engine": "E-HIST",
  "level": "Every configuration/size tuple inside the stated bounds is executed on the real queue, binner and payload code and compared with the tiling definition; exhaustive within bounds, nothing sampled.",
  "note": "Bounds: payload sizes {10,16,20,33} bytes, file sizes 1..2P+2, up to 3 files, <=2 missing ranges on a 5-point grid; sizes beyond are not explored. Go toolchain, testing/synctest.",
  "technique": "exhaustive input enumeration on the implementation (bounded model checking of the chunking path)",
  "parts": [
    {"pkg": "./client", "test": "TestC11", "shards": {"quick": 8, "thorough": 16}},
  ],
 },
}

NOT_APPLICABLE = {}
