# Which exploration parts decide which property. Each part is one Go test function in an
# instrumented in-package test binary; `shards` = number of single-P worker processes.
CHECKS = {
 "C11": {
  "rule": "every (payload size, chunk size, file sizes[, missing ranges]) tuple within the stated bounds is run through the real queue -> binner -> payload path; non-trivial = some file spans several chunks/payloads or several files share a payload; distinct = distinct tuples",
  "assumptions": ["payload sizes >= 10 bytes (below that the 10% slack truncates to 0)", "chunk size 0 is replaced by the payload size as main/client.go does"],
  "engine": "E-HIST",
  "level": "Every configuration/size tuple inside the stated bounds is executed on the real queue, binner and payload code and compared with the tiling definition; exhaustive within bounds, nothing sampled.",
  "note": "Bounds: payload sizes {10,16,20,33} bytes, file sizes 1..2P+2, up to 3 files, <=2 missing ranges on a 5-point grid; sizes beyond are not explored. Go toolchain, testing/synctest.",
  "technique": "exhaustive input enumeration on the implementation (bounded model checking of the chunking path)",
  "parts": [
    {"pkg": "./client", "test": "TestC11", "shards": {"quick": 8, "thorough": 16}},
  ],
 },
 "C10": {
  "engine": "E-HIST",
  "rule": "breadth-first search over Push/Pop histories of the real queue.Tagged, deduplicated on a digest of the queue's private state (group list, per-group file list with allocation, chain links) plus the reference model; non-trivial = at least two pushes and one pop; distinct = distinct digests",
  "level": "All Push/Pop interleavings up to the depth bound are executed on the real queue and every Pop is compared with a reference model (sorted pending list, list of completed names); state space explored exhaustively up to the bound.",
  "note": "Bounds: depth 8 (quick) / 11 (thorough), 5 files + placeholder + resumed file, 2 groups, chunk size 1. Ties on the ordering key (equal time stamps) accept either file. Deduplication assumes that the dumped private state determines the queue's future behaviour.",
  "technique": "explicit-state breadth-first search over operation histories on the implementation, reference-model oracle",
  "assumptions": ["files have 1-3 chunks; longer files only repeat the middle chunk", "state digest covers every field of queue.Tagged that Push/Pop read"],
  "parts": [
    {"pkg": "./queue", "test": "TestC10", "shards": {"quick": 12, "thorough": 16}},
  ],
 },
 "C12": {
  "engine": "E-HIST",
  "rule": "breadth-first search over Push/Pop/clock-advance histories of the real queue.Tagged inside a synctest bubble, for every priority assignment; deduplicated on queue private state + reference model; non-trivial = at least two groups pushed and two pops; distinct = distinct digests",
  "level": "All histories up to the depth bound, for every priority layout in the bound, are executed on the real queue; every Pop is checked against the ready set computed by a reference model (priority, rotation windows, last-file delay).",
  "note": "Bounds: 3 groups (quick) / 3-4 groups (thorough), 2 priority levels (+2 layouts with 3), depth 8/10, <=2/3 files per group. Rotation is checked as: when a group is served again, every same-priority group that was ready at every Pop in between was served in between.",
  "technique": "explicit-state breadth-first search over operation histories on the implementation, reference-model oracle",
  "assumptions": ["the virtual clock of testing/synctest stands in for time.Now in the last-file delay"],
  "parts": [
    {"pkg": "./queue", "test": "TestC12", "shards": {"quick": 12, "thorough": 16}},
  ],
 },
 "C18": {
  "engine": "E-HIST",
  "rule": "breadth-first search over histories of log writes and clock movements on the real log.FileIO in virtual time; in every distinct state (digest of the log directory + clock) every query of the query alphabet and a full Parse are compared with the list of records written; non-trivial = at least two different names logged",
  "level": "Every history within the bounds is executed on the real logger and every look-up of the query alphabet is compared with a reference list of records; exhaustive within bounds.",
  "note": "Bounds: <=3 writes/<=2 clock moves (quick), <=4/<=3 (thorough); 5 names (prefix, substring, sub-directory, ':' in name), 2 hashes. 'May answer yes' is widened by one day on either side of the window (the iteration overshoots); the degenerate window with equal ends is not asserted. Concurrent writers: see the E-SCHED part.",
  "technique": "explicit-state breadth-first search over operation histories on the implementation in virtual time, reference-model oracle",
  "assumptions": ["TZ=UTC", "virtual clock of testing/synctest selects the day file"],
  "parts": [
    {"pkg": "./log", "test": "TestC18", "shards": {"quick": 14, "thorough": 16}},
  ],
 },
 "C09": {
  "engine": "E-HIST+E-SCHED",
  "rule": "breadth-first search over sequences of part receptions on the real stage.Stage (+ real receive log) in virtual time; after every step the partial listing, every 'did you receive' answer and the completion state are compared with the bytes actually on disk and with the list of acknowledged parts; states deduplicated on sandbox listing + private stage state + reference model; non-trivial = at least two parts",
  "level": "Every sequence of parts within the bounds is executed on the real Stage and every claim the receiver makes (listing, received-answers, completion) is checked against the staged bytes in every state; concurrent receptions: every interleaving of lock operations, file-system mutations and goroutine starts up to the preemption bound is executed under a controlled scheduler.",
  "note": "Bounds: one 8-byte file, 10 intervals, sequences of <=4 (quick) / <=5 (thorough) parts, version changes (hash, size), readers that end one byte early. E-SCHED: see coverage.parts[].bound; unsynchronised memory accesses are outside the scheduler's view.",
  "technique": "explicit-state breadth-first search over operation histories + stateless preemption-bounded exploration of goroutine interleavings (controlled scheduler), both on the implementation in virtual time",
  "assumptions": ["file contents use pairwise different bytes per position and version, so equal bytes mean received bytes"],
  "parts": [
    {"pkg": "./stage", "test": "TestC09", "shards": {"quick": 16, "thorough": 16}},
    {"pkg": "./stage", "test": "TestC09Sched", "shards": {"quick": 16, "thorough": 16}},
  ],
 },
 "C01": {
  "engine": "E-HIST+E-SCHED",
  "rule": "breadth-first search over action histories on the real stage.Stage + real receive log in virtual time (replay-from-scratch successors); the harness consumes the final directory after every step and checks every arrival against the versions announced so far and the receive log; states deduplicated on sandbox listing + private stage state; non-trivial = at least two part receptions",
  "level": "Every history within the bounds is executed on the real Stage; the property's invariant is evaluated in every reached state.",
  "note": "Bounds: see coverage.parts[].bound. Goroutine interleavings inside the stage are the Go runtime's single-P schedule (E-SCHED part covers concurrent connections); corruption of a .wait body after validation is outside the property's list of corruptions.",
  "technique": "explicit-state breadth-first search over operation histories + stateless preemption-bounded exploration of goroutine interleavings (controlled scheduler), both on the implementation in virtual time",
  "assumptions": ["single-P deterministic schedule between harness actions", "process death modelled as loss of all in-memory state with the directory tree as of a completed system call"],
  "parts": [
    {"pkg": "./stage", "test": "TestC01", "shards": {"quick": 16, "thorough": 16}},
    {"pkg": "./stage", "test": "TestC01Sched", "shards": {"quick": 16, "thorough": 16}},
  ],
 },
 "C05": {
  "engine": "E-HIST",
  "rule": "breadth-first search over retransmission histories on the real stage.Stage + real receive log in virtual time; the harness consumes the final directory after every step and counts arrivals and log records per (name, hash); states deduplicated on sandbox listing + private stage state; non-trivial = at least two part receptions",
  "level": "Every retransmission history within the bounds is executed on the real Stage; arrivals and log records per version are counted in every reached state and every 'did you receive'/poll answer after a delivery is checked.",
  "note": "Bounds: see coverage.parts[].bound. Receiver crashes (which may repeat the log record) are C06's subject; log records are at most 25 h old.",
  "technique": "explicit-state breadth-first search over operation histories on the implementation in virtual time, invariant oracle",
  "assumptions": ["single-P deterministic schedule between harness actions", "cache ageing (production: every 1000 files) is invoked directly"],
  "parts": [
    {"pkg": "./stage", "test": "TestC05", "shards": {"quick": 16, "thorough": 16}},
  ],
 },
 "C20": {
  "engine": "E-HIST",
  "rule": "breadth-first search over receive/clean/prune/clock histories on the real stage.Stage + real receive log in virtual time; across every cleaning, pruning and clock step the staging tree is diffed and every removal is justified against deliveries and the receive log; states deduplicated on sandbox listing (with age buckets) + private stage state; non-trivial = at least two part receptions",
  "level": "Every history within the bounds is executed on the real Stage; every removal made by CleanNow, the periodic cleaner or Prune is checked in every reached state, and after each removing step the in-flight transfers are completed with exactly the unacknowledged parts.",
  "note": "Bounds: see coverage.parts[].bound. Long clock jumps are not taken while a held file's 10 s log-rescan timer is armed (held files are produced with predecessors that are in progress or failed instead). Cleaning concurrent with a transfer: E-SCHED part.",
  "technique": "explicit-state breadth-first search over operation histories on the implementation in virtual time, invariant oracle",
  "assumptions": ["single-P deterministic schedule between harness actions", "a partial without companion can only be compared by name"],
  "parts": [
    {"pkg": "./stage", "test": "TestC20", "shards": {"quick": 16, "thorough": 16}},
  ],
 },
 "C04": {
  "engine": "E-HIST",
  "rule": "breadth-first search, per predecessor structure, over delivery/poll/clock/clean/restart histories on the real stage.Stage + real receive log in virtual time; the harness consumes the final directory after every step and compares the order of arrivals and of receive-log records with the announced predecessors; states deduplicated on sandbox listing + private stage state; non-trivial = at least two receptions",
  "level": "Every history within the bounds, for every predecessor structure of the bound, is executed on the real Stage; ordering, the waiting answer and release after the predecessor's delivery are checked in every reached state.",
  "note": "Bounds: see coverage.parts[].bound. A file that hangs off a cycle is exempt like a file on it when released by the cleaner. End-to-end ordering (sender side chain + receiver) is C10 and the E-ENV part.",
  "technique": "explicit-state breadth-first search over operation histories on the implementation in virtual time, invariant oracle",
  "assumptions": ["single-P deterministic schedule between harness actions", "log records of earlier runs are written directly in the log's format"],
  "parts": [
    {"pkg": "./stage", "test": "TestC04", "shards": {"quick": 16, "thorough": 16}},
  ],
 },
 "C06": {
  "engine": "E-HIST",
  "rule": "breadth-first search over crash-free receive histories on the real stage.Stage + real receive log (states deduplicated on sandbox listing + private stage state); for every transition every crash point is enumerated: the receiver dies before the k-th file-system mutation of the step (k = 1..n) and at rest after it, the directory tree at that instant is recovered by a new Stage through the real Recover(); second crashes inside that recovery likewise; oracle = accurate partial listing, nothing unvalidated or misnamed in the final directory, delivered files known, and delivery of everything exactly once after an ideal resumption; non-trivial = at least two part receptions",
  "level": "Every (history, crash point) pair within the bounds is executed on the real Stage and recovery code; crash points are all file-system mutations (vos shim), enumerated by index.",
  "note": "Bounds: see coverage.parts[].bound. Crash model = process death (a prefix of the completed system calls survives); power loss (unsynced data) is out of scope because the code syncs only the log. Data written through an open handle is bracketed by the neighbouring path-level mutations.",
  "technique": "explicit-state search over operation histories plus exhaustive crash-point enumeration (every file-system mutation) on the implementation, recovery run by the real code",
  "assumptions": ["process-death crash model", "single-P deterministic schedule between harness actions"],
  "parts": [
    {"pkg": "./stage", "test": "TestC06", "shards": {"quick": 16, "thorough": 16}},
  ],
 },
 "C02": {
  "engine": "E-HIST+E-ENV",
  "rule": "receiver half: breadth-first search over delivery/poll/clock/ageing/restart histories on the real stage.Stage + real receive log in virtual time, every positive poll answer compared with what is durably held validated; states deduplicated on sandbox listing + private stage state; non-trivial = at least two receptions",
  "level": "Receiver half (positive answers only for durably held validated content): every history within the bounds is executed on the real Stage. Sender half (release only after such an answer): see parts.",
  "note": "Bounds: see coverage.parts[].bound.",
  "technique": "explicit-state breadth-first search over operation histories on the implementation in virtual time, invariant oracle",
  "assumptions": ["single-P deterministic schedule between harness actions", "the version a poll refers to is the one transmitted completely last under that name"],
  "parts": [
    {"pkg": "./stage", "test": "TestC02R", "shards": {"quick": 16, "thorough": 16}},
    {"pkg": "./main", "test": "TestC02Env", "shards": {"quick": 16, "thorough": 16}},
  ],
 },
 "C08": {
  "engine": "E-ENV",
  "rule": "deviation-bounded enumeration of request failures on the end-to-end rig (real sender incl. http client, real receiver incl. http server and stage, in-memory network, virtual time): every plan of <= d deviations over the failure menu of every data and data-recovery request is run to completion; the wire trace (requests, answers, parts the gate keeper accepted) is checked against the remainder rule and the acknowledgement rule; distinct = distinct plans",
  "level": "Every failure position of every payload and every failure of the recovery request itself, up to the deviation bound, is executed on the real sender and receiver; the oracle is evaluated on the recorded wire trace of each run.",
  "note": "Bounds: see coverage.parts[].bound. The goroutine schedule of each run is the Go runtime's (one P, virtual time): schedules are not enumerated by this part.",
  "technique": "exhaustive deviation-bounded enumeration of fault plans on the implementation (end-to-end, virtual time), trace oracle",
  "assumptions": ["one schedule per plan (single P, idle-only clock advance)", "faults are injected at the client.Conf seams and at the gate keeper"],
  "parts": [
    {"pkg": "./main", "test": "TestC08Env", "shards": {"quick": 16, "thorough": 16}},
  ],
 },
 "C03": {
  "engine": "E-ENV+E-HIST",
  "rule": "deviation-bounded enumeration of transient failures on the end-to-end rig (real sender and receiver, in-memory network, virtual time): every plan of <= d deviations is run, followed by a failure-free period of 6 h of virtual time; the goal (everything delivered, confirmed, released; nothing of an undelivered version in staging) is evaluated at the end; distinct = distinct plans",
  "level": "Bounded liveness: every finite fault sequence up to the deviation bound is executed on the real system and delivery is required within a horizon that is an order of magnitude above the slowest legitimate recovery path.",
  "note": "Bounds: see coverage.parts[].bound. Liveness under unbounded fault sequences is not decided; the goroutine schedule of each run is the Go runtime's.",
  "technique": "exhaustive deviation-bounded enumeration of fault / crash / stop plans on the implementation (end-to-end, virtual time), trace and state oracles",
  "assumptions": ["one schedule per plan (single P, idle-only clock advance)", "deviations are injected at the client.Conf seams and at the gate keeper; process death = the incarnation's goroutines end at their next environment action, its durable state is copied for the next incarnation"],
  "parts": [
    {"pkg": "./main", "test": "TestC03Env", "shards": {"quick": 16, "thorough": 16}},
    {"pkg": "./stage", "test": "TestC03Hold", "shards": {"quick": 16, "thorough": 16}},
  ],
 },
 "C16": {
  "engine": "E-ENV",
  "rule": "enumeration of the stop moment against the sender's externally visible actions on the end-to-end rig: a graceful or immediate stop at every action, alone and after one request failure; every run must end with the sender's done signal within the stated virtual-time bound; drain completeness checked on final state and persisted cache; distinct = distinct plans",
  "level": "Every stop moment (by action) of both kinds, within the scenarios, is executed on the real Broker with the real pipeline; termination and drain completeness are checked on each run.",
  "note": "Bounds: see coverage.parts[].bound. Interleavings of the pipeline goroutines beyond the runtime's schedule: E-SCHED part (client package).",
  "technique": "exhaustive deviation-bounded enumeration of fault / crash / stop plans on the implementation (end-to-end, virtual time), trace and state oracles",
  "assumptions": ["one schedule per plan (single P, idle-only clock advance)", "deviations are injected at the client.Conf seams and at the gate keeper; process death = the incarnation's goroutines end at their next environment action, its durable state is copied for the next incarnation"],
  "parts": [
    {"pkg": "./main", "test": "TestC16Env", "shards": {"quick": 16, "thorough": 16}},
  ],
 },
 "C07": {
  "engine": "E-ENV",
  "rule": "enumeration of sender crash points on the end-to-end rig: the sender dies right before each externally visible action (single and double crashes, crash after a request failure); the next incarnation is started by the real clientApp.init / Broker.recover on a copy of the durable state; wire trace and end state checked; distinct = distinct plans",
  "level": "Every crash point (by action) up to the deviation bound is executed; recovery is run by the real code against the real receiver.",
  "note": "Bounds: see coverage.parts[].bound. Crash points inside cache/log file writes (between tmp write and rename) are covered by the cache-write action boundary only.",
  "technique": "exhaustive deviation-bounded enumeration of fault / crash / stop plans on the implementation (end-to-end, virtual time), trace and state oracles",
  "assumptions": ["one schedule per plan (single P, idle-only clock advance)", "deviations are injected at the client.Conf seams and at the gate keeper; process death = the incarnation's goroutines end at their next environment action, its durable state is copied for the next incarnation"],
  "parts": [
    {"pkg": "./main", "test": "TestC07Env", "shards": {"quick": 16, "thorough": 16}},
  ],
 },
 "C17": {
  "engine": "E-ENV",
  "rule": "(a) exhaustive enumeration of the eligibility option combinations on a tree with one file of every kind, each combination one real one-shot run of sender and receiver, compared with the predicate of the statement; (b) deviation-bounded enumeration of file changes (rewrite, append, touch, delete) at every externally visible action of a running sender; distinct = distinct option combinations / plans",
  "level": "Eligibility: every option combination of the bound is executed end to end. Histories: every placement of <= d file changes against the sender's actions is executed on the real system and delivery of complete, latest versions is checked.",
  "note": "Bounds: see coverage.parts[].bound. For symbolic links the statement does not say whose size and age count; they are not part of the enumerated tree. A writer striking between the sender's last comparison and the unlink is outside the alphabet.",
  "technique": "exhaustive enumeration of configurations and of deviation-bounded file-change plans on the implementation (end-to-end, virtual time)",
  "assumptions": ["one schedule per plan (single P, idle-only clock advance)", "file changes are applied at the sender's externally visible actions"],
  "parts": [
    {"pkg": "./main", "test": "TestC17Elig", "shards": {"quick": 16, "thorough": 16}},
    {"pkg": "./main", "test": "TestC17Env", "shards": {"quick": 16, "thorough": 16}},
  ],
 },
 "C13": {
  "engine": "E-HIST",
  "rule": "exhaustive enumeration of payloads (part counts, lengths around the block and copy-buffer sizes, slice positions, read-buffer sizes, compression levels, separators, names, times) through the real encoder and decoder, of every truncation point of one payload and of wrong announced header lengths; each faulty case runs in a synctest bubble so that a decoder that never returns is detected; distinct = distinct cases",
  "level": "Every case of the stated input space is executed on the real payload code and compared field by field and byte by byte.",
  "note": "Bounds: see coverage.parts[].bound. Over real HTTP the same path is exercised by every E-ENV run (see the C13 HTTP part).",
  "technique": "exhaustive input enumeration on the implementation (bounded model checking of the wire format), differential oracle encoder vs decoder",
  "assumptions": ["gzip framing as applied by http.Client.Transmit / Server.routeData is reproduced in the harness"],
  "parts": [
    {"pkg": "./payload", "test": "TestC13", "shards": {"quick": 16, "thorough": 16}},
  ],
 },
 "C15": {
  "engine": "E-HIST",
  "rule": "exhaustive enumeration of (configured sources, configured keys, presented source, presented key, header vs query, route, method) against the real server wired by serverApp.init (real standardValidator and handleValidate), compared with a reference predicate, with before/after listings and probe answers for refused requests; plus enumeration of every file-system step of the real Stage.Recover as the moment at which requests arrive; distinct = distinct requests / recovery steps",
  "level": "Every request of the stated space is sent to the real server over the in-memory network; every file-system step of recovery is used as the arrival moment of a probe of each route.",
  "note": "Bounds: see coverage.parts[].bound. Arrival moments inside recovery are its file-system mutation points (lock-level interleavings are not enumerated by this part).",
  "technique": "exhaustive input enumeration and fault-point enumeration on the implementation, reference-predicate and differential (before/after) oracles",
  "assumptions": ["in-memory network below net/http", "virtual time"],
  "parts": [
    {"pkg": "./main", "test": "TestC15Auth", "shards": {"quick": 9, "thorough": 9}},
    {"pkg": "./main", "test": "TestC15Recovery", "shards": {"quick": 7, "thorough": 7}},
  ],
 },
 "C14": {
  "engine": "E-HIST",
  "rule": "exhaustive enumeration of traversal-shaped names in every name-bearing field of every route, sent to the real server wired by serverApp.init over the in-memory network; differential oracle: listing (names, sizes, hashes) of everything outside the authorised source's directories before and after each request, canary content in answers, no change at all for refused requests; distinct = distinct (field, name) pairs",
  "level": "Every (field, name) pair of the stated grammar is sent to the real server; effects are observed on the real file system of a sandbox that contains the receiver's directories as a proper sub-directory.",
  "note": "Bounds: see coverage.parts[].bound. Windows path semantics are exercised only as header values.",
  "technique": "exhaustive input enumeration on the implementation, differential (before/after) oracle",
  "assumptions": ["in-memory network below net/http", "Linux path semantics"],
  "parts": [
    {"pkg": "./main", "test": "TestC14", "shards": {"quick": 16, "thorough": 16}},
  ],
 },
 "C19": {
  "engine": "E-HIST",
  "rule": "exhaustive enumeration of generated configuration documents (JSON and YAML) over the stated option space, parsed by the real conf code; effective values compared with a reference implementation of 'inherit if omitted'; differential round trip parse -> json.Marshal -> parse; wiring of tags into the running sender observed on the real clientApp.init; distinct = distinct documents",
  "level": "Every document of the stated space is parsed by the real code and every effective option is compared with the reference; every document is re-encoded and parsed again.",
  "note": "Bounds: see coverage.parts[].bound. Options are varied individually against all-absent / all-present contexts, not in the full product.",
  "technique": "exhaustive enumeration of configurations on the implementation, reference-model and differential oracles",
  "assumptions": ["explicit numeric zeros are a separate class (the schema has no way to tell them from omitted)"],
  "parts": [
    {"pkg": ".", "test": "TestC19", "shards": {"quick": 8, "thorough": 8}},
    {"pkg": "./main", "test": "TestC19Wiring", "shards": {"quick": 8, "thorough": 8}},
  ],
 },
}

NOT_APPLICABLE = {}
