//go:build verif

package http

import "github.com/arm-doe/sts"

// VerifSwapGateKeepers replaces the gate keepers of a running server (receiver restart on
// a crash image: the new stages are created and recovered by the real start-up code).
func (s *Server) VerifSwapGateKeepers(gks map[string]sts.GateKeeper, factory sts.GateKeeperFactory) (old map[string]sts.GateKeeper) {
	s.lock.Lock()
	defer s.lock.Unlock()
	old = s.GateKeepers
	s.GateKeepers = gks
	if factory != nil {
		s.GateKeeperFactory = factory
	}
	return
}

// VerifGateKeepers returns a copy of the current gate keeper map.
func (s *Server) VerifGateKeepers() map[string]sts.GateKeeper {
	s.lock.RLock()
	defer s.lock.RUnlock()
	out := map[string]sts.GateKeeper{}
	for k, v := range s.GateKeepers {
		out[k] = v
	}
	return out
}
