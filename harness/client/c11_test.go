//go:build verif

package client

import (
	"bytes"
	"fmt"
	"io"
	"sort"
	"sync"
	"testing"
	"testing/synctest"
	"time"

	"github.com/alecthomas/units"
	"github.com/arm-doe/sts"
	"github.com/arm-doe/sts/internal/verif/vh"
	"github.com/arm-doe/sts/payload"
	"github.com/arm-doe/sts/queue"
)

// C11: chunks and payload parts tile every file exactly.
// Exhaustive enumeration through the real queue.Tagged -> client.binnable ->
// (*Broker).startBin -> payload.Bin.Add/IsFull path.

type c11Case struct {
	P       int64     `json:"payload"`
	C       int64     `json:"chunk"`
	Sizes   []int64   `json:"sizes"`
	Missing [][]int64 `json:"missing,omitempty"` // for file 0 when resumed: [beg,end) ranges
}

type c11Piece struct {
	name     string
	beg, end int64
}

// run drives the real pipeline and returns the chunks popped and the payloads' parts.
var c11Payloads []sts.Payload // the payloads of the last c11Run (for the split checks)

func c11Run(c c11Case) (chunks []c11Piece, bins [][]c11Piece, binSizes []int64, err error) {
	c11Payloads = nil
	chunk := c.C
	if chunk == 0 {
		chunk = c.P // as main/client.go does: chunk size defaults to the payload size
	}
	tags := []*queue.Tag{{Name: "", Order: sts.OrderFIFO, ChunkSize: chunk}}
	q := queue.NewTagged(tags, func(string) string { return "" }, func(string) string { return "g" })
	t0 := time.Date(1999, 1, 1, 0, 0, 0, 0, time.UTC)
	var files []sts.Hashed
	for i, sz := range c.Sizes {
		f := &vFile{name: fmt.Sprintf("f%d", i), size: sz, time: t0.Add(time.Duration(i) * time.Second), hash: "h"}
		if i == 0 && c.Missing != nil {
			var left []*sts.ByteRange
			for _, m := range c.Missing {
				left = append(left, &sts.ByteRange{Beg: m[0], End: m[1]})
			}
			files = append(files, &recoverFile{Cached: f, left: left})
		} else {
			files = append(files, f)
		}
	}
	q.Push(files)
	var sendables []sts.Sendable
	for n := 0; ; n++ {
		s := q.Pop()
		if s == nil {
			break
		}
		if n > 10000 {
			return nil, nil, nil, fmt.Errorf("queue emits chunks without end (more than 10000)")
		}
		b, l := s.GetSlice()
		chunks = append(chunks, c11Piece{s.GetName(), b, b + l})
		sendables = append(sendables, s)
	}
	broker := &Broker{Conf: &Conf{
		Store:        vStore{},
		BuildPayload: payload.NewBin,
		PayloadSize:  units.Base2Bytes(c.P),
		Tagger:       func(string) string { return "" },
	}}
	broker.tagMap = map[string]*FileTag{"": {Name: "", InOrder: true}}
	broker.chQueued = make(chan sts.Sendable, len(sendables)+1)
	broker.chTransmit = make(chan sts.Payload, 4*len(sendables)+4)
	for _, s := range sendables {
		broker.chQueued <- s
	}
	close(broker.chQueued)
	var wg sync.WaitGroup
	wg.Add(1)
	go broker.startBin(&wg)
	wg.Wait()
	close(broker.chTransmit)
	for p := range broker.chTransmit {
		var ps []c11Piece
		for _, part := range p.GetParts() {
			b, l := part.GetSlice()
			ps = append(ps, c11Piece{part.GetName(), b, b + l})
		}
		bins = append(bins, ps)
		binSizes = append(binSizes, p.GetSize())
		c11Payloads = append(c11Payloads, p)
	}
	return
}

func c11Pieces(p sts.Payload) (ps []c11Piece, sum int64) {
	for _, part := range p.GetParts() {
		b, l := part.GetSlice()
		ps = append(ps, c11Piece{part.GetName(), b, b + l})
		sum += l
	}
	return
}

// c11Splits: every payload is split after k parts, for every k, the way the sender does when a
// transmission is accepted in part (it has looked at the parts before): the head keeps exactly
// the first k parts, the tail gets exactly the rest, and both report the size of their parts.
func c11Splits(c c11Case) string {
	for k := 1; ; k++ {
		if _, _, _, err := c11Run(c); err != nil {
			return err.Error()
		}
		any := false
		for i, p := range c11Payloads {
			orig, _ := c11Pieces(p)
			if len(orig) <= k {
				continue
			}
			any = true
			tail := p.Split(k)
			if tail == nil {
				return fmt.Sprintf("payload %d (%d parts): Split(%d) returned nothing", i, len(orig), k)
			}
			head, hsum := c11Pieces(p)
			tl, tsum := c11Pieces(tail)
			if fmt.Sprint(head) != fmt.Sprint(orig[:k]) || fmt.Sprint(tl) != fmt.Sprint(orig[k:]) {
				return fmt.Sprintf("payload %d split after %d of %d parts: head lists %v and tail %v, the payload held %v (parts lost or listed twice)", i, k, len(orig), head, tl, orig)
			}
			if p.GetSize() != hsum || tail.GetSize() != tsum {
				return fmt.Sprintf("payload %d split after %d parts: head reports %d bytes for parts adding up to %d, tail %d for %d", i, k, p.GetSize(), hsum, tail.GetSize(), tsum)
			}
		}
		if !any {
			return ""
		}
	}
}

// tiles checks that pieces of one file are non-empty, ascending, disjoint and cover want exactly.
func c11Tiles(pieces []c11Piece, want [][]int64) string {
	// merge want
	var flat [][2]int64
	for _, w := range want {
		flat = append(flat, [2]int64{w[0], w[1]})
	}
	sort.Slice(flat, func(i, j int) bool { return flat[i][0] < flat[j][0] })
	var covered int64
	wi := 0
	var last int64 = -1
	for _, p := range pieces {
		if p.end <= p.beg {
			return fmt.Sprintf("empty or negative piece [%d,%d)", p.beg, p.end)
		}
		if p.beg < last {
			return fmt.Sprintf("piece [%d,%d) not ascending/disjoint (previous end %d)", p.beg, p.end, last)
		}
		last = p.end
		// must lie inside one wanted range
		for wi < len(flat) && flat[wi][1] <= p.beg {
			wi++
		}
		if wi >= len(flat) || p.beg < flat[wi][0] || p.end > flat[wi][1] {
			return fmt.Sprintf("piece [%d,%d) outside the bytes to send %v", p.beg, p.end, want)
		}
		covered += p.end - p.beg
	}
	var total int64
	for _, w := range flat {
		total += w[1] - w[0]
	}
	if covered != total {
		return fmt.Sprintf("pieces cover %d bytes, expected %d (%v)", covered, total, want)
	}
	return ""
}

func c11Check(c c11Case) string {
	chunks, bins, binSizes, err := c11Run(c)
	if err != nil {
		return err.Error()
	}
	chunk := c.C
	if chunk == 0 {
		chunk = c.P
	}
	allow := c.P + int64(float64(c.P)*0.1)
	byFileChunks := map[string][]c11Piece{}
	for _, p := range chunks {
		if p.end-p.beg > chunk {
			return fmt.Sprintf("chunk %v larger than chunk size %d", p, chunk)
		}
		byFileChunks[p.name] = append(byFileChunks[p.name], p)
	}
	byFileParts := map[string][]c11Piece{}
	for i, b := range bins {
		var sum int64
		if len(b) == 0 {
			return fmt.Sprintf("payload %d is empty", i)
		}
		for _, p := range b {
			sum += p.end - p.beg
			if p.end-p.beg > chunk {
				return fmt.Sprintf("part %v larger than chunk size %d", p, chunk)
			}
			byFileParts[p.name] = append(byFileParts[p.name], p)
		}
		if sum != binSizes[i] {
			return fmt.Sprintf("payload %d: GetSize()=%d but parts add up to %d", i, binSizes[i], sum)
		}
		if sum > allow {
			return fmt.Sprintf("payload %d holds %d bytes, allowance is %d", i, sum, allow)
		}
	}
	for i, sz := range c.Sizes {
		name := fmt.Sprintf("f%d", i)
		want := [][]int64{{0, sz}}
		if i == 0 && c.Missing != nil {
			want = c.Missing
		}
		if msg := c11Tiles(byFileChunks[name], want); msg != "" {
			return "chunks of " + name + ": " + msg
		}
		if msg := c11Tiles(byFileParts[name], want); msg != "" {
			return "payload parts of " + name + ": " + msg
		}
	}
	// what is put on the wire: the encoder of every payload streams, for each part in header order,
	// exactly the bytes [beg,end) of that part's file - so the bytes transmitted are the bytes to send
	for i, p := range c11Payloads {
		body, err := io.ReadAll(p.GetEncoder())
		if err != nil {
			return fmt.Sprintf("payload %d: reading the encoder: %s", i, err)
		}
		var want []byte
		for _, pc := range bins[i] {
			for o := pc.beg; o < pc.end; o++ {
				want = append(want, vByte(pc.name, o))
			}
		}
		if !bytes.Equal(body, want) {
			at := 0
			for at < len(body) && at < len(want) && body[at] == want[at] {
				at++
			}
			return fmt.Sprintf("payload %d with parts %v: the encoder streams %d bytes, the parts add up to %d; first difference at stream offset %d (the bytes of some part are not the bytes [beg,end) of its file)", i, bins[i], len(body), len(want), at)
		}
	}
	return c11Splits(c)
}

// c11Repush: file f0 changes while it is being chunked - after k chunks of the old version were
// popped the scan pushes the new version (other size, hash, time) under the same name. The chunks
// emitted for the NEW version must tile exactly [0, new size): nothing of the old version's
// progress may carry over.
type c11RepushCase struct {
	P     int64 `json:"payload"`
	C     int64 `json:"chunk"`
	Old   int64 `json:"old_size"`
	New   int64 `json:"new_size"`
	After int   `json:"after_pops"`
	Other int64 `json:"other_file_size"` // 0 = none
}

func c11RepushCheck(c c11RepushCase) (msg string, applicable bool) {
	chunk := c.C
	if chunk == 0 {
		chunk = c.P
	}
	tags := []*queue.Tag{{Name: "", Order: sts.OrderFIFO, ChunkSize: chunk}}
	q := queue.NewTagged(tags, func(string) string { return "" }, func(string) string { return "g" })
	t0 := time.Date(1999, 1, 1, 0, 0, 0, 0, time.UTC)
	files := []sts.Hashed{&vFile{name: "f0", size: c.Old, time: t0, hash: "h-old"}}
	if c.Other > 0 {
		files = append(files, &vFile{name: "f1", size: c.Other, time: t0.Add(time.Second), hash: "h1"})
	}
	q.Push(files)
	var newChunks, f1Chunks []c11Piece
	pops := 0
	pushed := false
	for n := 0; n < 10000; n++ {
		if pops == c.After && !pushed {
			q.Push([]sts.Hashed{&vFile{name: "f0", size: c.New, time: t0.Add(time.Minute), hash: "h-new"}})
			pushed = true
		}
		s := q.Pop()
		if s == nil {
			break
		}
		pops++
		b, l := s.GetSlice()
		switch {
		case s.GetName() == "f1":
			f1Chunks = append(f1Chunks, c11Piece{"f1", b, b + l})
		case s.GetHash() == "h-new":
			newChunks = append(newChunks, c11Piece{"f0", b, b + l})
		case pushed:
			return fmt.Sprintf("after the new version of f0 was pushed a chunk [%d,%d) of the OLD version (hash %s) was emitted", b, b+l, s.GetHash()), true
		}
	}
	if !pushed {
		return "", false // the old version had fewer chunks than After
	}
	if m := c11Tiles(newChunks, [][]int64{{0, c.New}}); m != "" {
		return fmt.Sprintf("chunks of the new version of f0 (%d bytes, pushed after %d chunk(s) of the %d-byte old version were emitted): %s; emitted %v", c.New, c.After, c.Old, m, newChunks), true
	}
	if c.Other > 0 {
		if m := c11Tiles(f1Chunks, [][]int64{{0, c.Other}}); m != "" {
			return "chunks of f1: " + m, true
		}
	}
	return "", true
}

func TestC11Repush(t *testing.T) {
	rep := vh.NewReport("C11", "a file re-pushed with new content while it is being chunked")
	defer rep.Write()
	var rc c11RepushCase
	if vh.ReplaySpec(&rc) {
		synctest.Test(t, func(t *testing.T) {
			if msg, _ := c11RepushCheck(rc); msg != "" {
				rep.Violate("", msg, rc)
			}
		})
		rep.Executions = 1
		return
	}
	k := 0
	for _, P := range []int64{10, 16} {
		for _, C := range []int64{0, 1, 3, P - 1, P, P + 1} {
			max := 2*P + 2
			if vh.Thorough() {
				max = 3*P + 3
			}
			for old := int64(1); old <= max; old++ {
				for nw := int64(1); nw <= max; nw++ {
					for _, other := range []int64{0, 5} {
						for after := 0; after <= int(max); after++ {
							k++
							if !vh.Mine(k) {
								continue
							}
							c := c11RepushCase{P: P, C: C, Old: old, New: nw, After: after, Other: other}
							var msg string
							var ok bool
							synctest.Test(t, func(t *testing.T) { msg, ok = c11RepushCheck(c) })
							if !ok {
								break // no more pops in this history: larger values of After neither
							}
							rep.Executions++
							rep.States++
							rep.Transitions++
							if after > 0 {
								rep.Nontrivial++
							}
							rep.Outcome(fmt.Sprintf("P%d C%d", P, C))
							if msg != "" {
								rep.Violate("", msg, c)
							}
						}
					}
				}
			}
		}
	}
	rep.Bound = "payload sizes {10,16}; chunk sizes {payload,1,3,P-1,P,P+1}; old and new size of the file 1..2P+2 each (thorough 3P+3); new version pushed after every number of emitted chunks (0..all); with and without a second file behind it"
}

func TestC11(t *testing.T) {
	rep := vh.NewReport("C11", "queue+binner tiling")
	defer rep.Write()
	var rc c11Case
	if vh.ReplaySpec(&rc) {
		synctest.Test(t, func(t *testing.T) {
			if msg := c11Check(rc); msg != "" {
				rep.Violate("", msg, rc)
			}
		})
		rep.Executions = 1
		return
	}
	Ps := []int64{10, 16, 20, 33}
	k := 0
	shapes := map[string]bool{}
	do := func(c c11Case) {
		k++
		if !vh.Mine(k) {
			return
		}
		synctest.Test(t, func(t *testing.T) {
			msg := c11Check(c)
			rep.Executions++
			if msg != "" {
				rep.Violate("", msg, c)
			}
		})
		// non-trivial: some file spans more than one chunk or payload
		for _, s := range c.Sizes {
			ch := c.C
			if ch == 0 {
				ch = c.P
			}
			if s > ch || s > c.P || len(c.Sizes) > 1 {
				rep.Nontrivial++
				break
			}
		}
		shapes[fmt.Sprintf("P%d C%d n%d m%d", c.P, c.C, len(c.Sizes), len(c.Missing))] = true
		rep.Sample(c, 6)
	}
	for _, P := range Ps {
		Cs := []int64{0, 1, P - 1, P, P + 1, 2 * P}
		max := 2*P + 2
		for _, C := range Cs {
			// one file, every size
			for s := int64(1); s <= max; s++ {
				do(c11Case{P: P, C: C, Sizes: []int64{s}})
			}
			// two files, every pair (thorough) / every pair from a grid (quick)
			grid := []int64{1, 2, P - 1, P, P + 1, P + P/10, P + P/10 + 1, 2 * P, 2*P + 2}
			if vh.Thorough() {
				for a := int64(1); a <= max; a++ {
					for b := int64(1); b <= max; b++ {
						do(c11Case{P: P, C: C, Sizes: []int64{a, b}})
					}
				}
			} else {
				for _, a := range grid {
					for b := int64(1); b <= max; b++ {
						do(c11Case{P: P, C: C, Sizes: []int64{a, b}})
					}
				}
			}
			// three files from the grid
			for _, a := range grid {
				for _, b := range grid {
					for _, d := range grid {
						do(c11Case{P: P, C: C, Sizes: []int64{a, b, d}})
					}
				}
			}
			// resumed file: every set of <= 2 missing ranges on a 5-point grid, followed by a normal file
			for _, s := range []int64{P - 1, P + 3, 2*P + 2} {
				if s < 4 {
					continue
				}
				pts := []int64{0, s / 4, s / 2, (3 * s) / 4, s}
				var ranges [][]int64
				for i := 0; i < len(pts); i++ {
					for j := i + 1; j < len(pts); j++ {
						if pts[i] < pts[j] {
							ranges = append(ranges, []int64{pts[i], pts[j]})
						}
					}
				}
				for i, r1 := range ranges {
					do(c11Case{P: P, C: C, Sizes: []int64{s}, Missing: [][]int64{r1}})
					do(c11Case{P: P, C: C, Sizes: []int64{s, P}, Missing: [][]int64{r1}})
					for _, r2 := range ranges[i+1:] {
						if r1[1] <= r2[0] {
							do(c11Case{P: P, C: C, Sizes: []int64{s}, Missing: [][]int64{r1, r2}})
							do(c11Case{P: P, C: C, Sizes: []int64{s, 3}, Missing: [][]int64{r1, r2}})
						}
					}
				}
			}
		}
	}
	rep.States = int64(len(shapes))
	rep.Transitions = rep.Executions
	rep.Bound = "payload sizes {10,16,20,33}; chunk sizes {payload,1,P-1,P,P+1,2P}; file sizes 1..2P+2; 1-3 files; resumed files with <=2 missing ranges on a 5-point grid"
	for s := range shapes {
		rep.Outcome(s)
	}
}
