//go:build verif

package client

import (
	"time"

	"github.com/arm-doe/sts"
	"github.com/arm-doe/sts/internal/verif/vh"
	"github.com/arm-doe/sts/log"
)

func init() {
	log.InitExternal(vh.NullLogger{})
}

// vFile is a minimal sts.Hashed.
type vFile struct {
	name string
	size int64
	time time.Time
	hash string
}

func (f *vFile) GetPath() string    { return "/nonexistent/" + f.name }
func (f *vFile) GetName() string    { return f.name }
func (f *vFile) GetSize() int64     { return f.size }
func (f *vFile) GetTime() time.Time { return f.time }
func (f *vFile) GetMeta() []byte    { return nil }
func (f *vFile) GetHash() string    { return f.hash }
func (f *vFile) IsDone() bool       { return false }

type vStore struct{}

func (vStore) Scan(func(sts.File) bool) ([]sts.File, time.Time, error) { return nil, time.Time{}, nil }
func (vStore) GetOpener() sts.Open                                      { return nil }
func (vStore) Remove(sts.File) error                                    { return nil }
func (vStore) Sync(sts.File) (sts.File, error)                          { return nil, nil }
func (vStore) IsNotExist(error) bool                                    { return false }
func (vStore) ShouldIgnore(sts.File) bool                               { return false }
