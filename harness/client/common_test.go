//go:build verif

package client

import (
	"time"

	"github.com/arm-doe/sts"
	"github.com/arm-doe/sts/internal/verif/vh"
	"github.com/arm-doe/sts/log"
)

func init() {
	log.InitExternal(vh.NullLogger{})
}

// vFile is a minimal sts.Hashed.
type vFile struct {
	name string
	size int64
	time time.Time
	hash string
}

func (f *vFile) GetPath() string    { return "/nonexistent/" + f.name }
func (f *vFile) GetName() string    { return f.name }
func (f *vFile) GetSize() int64     { return f.size }
func (f *vFile) GetTime() time.Time { return f.time }
func (f *vFile) GetMeta() []byte    { return nil }
func (f *vFile) GetHash() string    { return f.hash }
func (f *vFile) IsDone() bool       { return false }

type vStore struct{}

func (vStore) Scan(func(sts.File) bool) ([]sts.File, time.Time, error) { return nil, time.Time{}, nil }
func (vStore) GetOpener() sts.Open {
	return func(f sts.File) (sts.Readable, error) { return &vReadable{name: f.GetName()}, nil }
}
func (vStore) Remove(sts.File) error           { return nil }
func (vStore) Sync(sts.File) (sts.File, error) { return nil, nil }
func (vStore) IsNotExist(error) bool           { return false }
func (vStore) ShouldIgnore(sts.File) bool      { return false }

// vByte: the content of the harness's files - byte o of file name is a function of both, so a
// byte taken from a wrong offset or a wrong file shows.
func vByte(name string, o int64) byte {
	var h int64 = 7
	for _, c := range name {
		h = h*31 + int64(c)
	}
	return byte((h + o*13 + o/251) % 251)
}

type vReadable struct {
	name string
	pos  int64
}

func (r *vReadable) Read(p []byte) (int, error) {
	for i := range p {
		p[i] = vByte(r.name, r.pos+int64(i))
	}
	r.pos += int64(len(p))
	return len(p), nil
}

func (r *vReadable) Seek(off int64, whence int) (int64, error) {
	switch whence {
	case 0:
		r.pos = off
	case 1:
		r.pos += off
	default:
		panic("harness: seek from end of a generated file")
	}
	return r.pos, nil
}

func (r *vReadable) Close() error { return nil }
