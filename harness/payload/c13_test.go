//go:build verif

package payload

import (
	"bytes"
	"compress/gzip"
	"fmt"
	"io"
	"strings"
	"testing"
	"testing/synctest"
	"time"

	"github.com/arm-doe/sts"
	"github.com/arm-doe/sts/internal/verif/vh"
	"github.com/arm-doe/sts/log"
)

// C13: the payload wire format round-trips (in memory: Bin.EncodeHeader / GetEncoder ->
// optional gzip -> NewDecoder -> part readers).

func init() { log.InitExternal(vh.NullLogger{}) }

type memFile struct {
	name string
	data []byte
	t    time.Time
	hash string
	prev string
}

func (f *memFile) GetPath() string    { return "/mem/" + f.name }
func (f *memFile) GetName() string    { return f.name }
func (f *memFile) GetSize() int64     { return int64(len(f.data)) }
func (f *memFile) GetTime() time.Time { return f.t }
func (f *memFile) GetMeta() []byte    { return nil }
func (f *memFile) GetHash() string    { return f.hash }

// chunk is a sts.Binnable: the slice [beg,end) of a file.
type chunk struct {
	*memFile
	beg, end  int64
	allocated int64
}

func (c *chunk) GetPrev() string              { return c.prev }
func (c *chunk) GetSlice() (int64, int64)     { return c.beg, c.end - c.beg }
func (c *chunk) GetSendSize() int64           { return c.GetSize() }
func (c *chunk) GetNextAlloc() (int64, int64) { return c.beg + c.allocated, c.end }
func (c *chunk) AddAlloc(n int64)             { c.allocated += n }
func (c *chunk) IsAllocated() bool            { return c.allocated == c.end-c.beg }

// memReadable is the opened source file. With max > 0 a Read hands out at most max bytes
// without an error (what io.Reader allows and a pipe, a network file system or a decompressing
// opener does): the environment answer "short read" at the source seam.
type memReadable struct {
	*bytes.Reader
	max int
}

func (memReadable) Close() error { return nil }

func (m memReadable) Read(p []byte) (int, error) {
	if m.max > 0 && len(p) > m.max {
		p = p[:m.max]
	}
	return m.Reader.Read(p)
}

type partSpec struct {
	File     int   `json:"file"`
	Beg, End int64 `json:"beg_end"`
}

type c13Case struct {
	Names []string   `json:"names"`
	Sizes []int64    `json:"sizes"`
	Parts []partSpec `json:"parts"`
	Buf   int        `json:"buf"`
	Gzip  int        `json:"gzip"` // -1 = none
	Sep   string     `json:"sep"`
	Cut   int        `json:"cut"`  // >0: the stream ends after this many bytes
	DLen  int        `json:"dlen"` // announced header length = real length + DLen
	Pre   string     `json:"pre"`  // what happened to the payload after a first (failed) transmission: "remove:i", "split:k:head|tail"
}

func fileData(i int, size int64) []byte {
	b := make([]byte, size)
	for k := range b {
		b[k] = byte('A' + (i*7+k*13+k/251)%58)
	}
	return b
}

// slowReader hands out at most n bytes per Read (transport fragmentation).
type chunkReader struct {
	r io.Reader
	n int
}

func (c *chunkReader) Read(p []byte) (int, error) {
	if len(p) > c.n {
		p = p[:c.n]
	}
	return c.r.Read(p)
}

// run encodes and decodes one case; returns "" or a violation text.
func c13Run(c c13Case) (viol string) {
	files := make([]*memFile, len(c.Sizes))
	t0 := time.Date(2001, 2, 3, 4, 5, 6, 789012345, time.UTC)
	// file times: ordinary ones and instants that nanoseconds-since-1970 in 64 bits cannot hold
	// (a file system's "no time stamp" value, a far-future time, Go's zero time), rotated over the cases
	times := []time.Time{
		t0,
		time.Date(1969, 12, 31, 23, 59, 58, 500000001, time.UTC),
		time.Date(1601, 1, 1, 0, 0, 0, 100, time.UTC),
		time.Date(2300, 2, 3, 4, 5, 6, 7, time.UTC),
		{},
	}
	rot := len(c.Parts) + c.Gzip + c.Buf%7
	for i, s := range c.Sizes {
		d := fileData(i, s)
		t := times[(rot+i)%len(times)]
		if t.Equal(t0) {
			t = t0.Add(time.Duration(i) * 1234567891)
		}
		files[i] = &memFile{name: c.Names[i], data: d, t: t, hash: vh.MD5(d), prev: c.Names[(i+1)%len(c.Names)]} // the predecessor is another file of the source: its name may hold separators when the part's own name holds none
	}
	// the cases with the second separator read their source files in pieces of at most 3 bytes,
	// the others get every read filled: each part list x buffer x compression is run both ways
	srcMax := 0
	if c.Sep == "\\" {
		srcMax = 3
	}
	opener := func(f sts.File) (sts.Readable, error) {
		for _, mf := range files {
			if mf.name == f.GetName() {
				return memReadable{bytes.NewReader(mf.data), srcMax}, nil
			}
		}
		return nil, fmt.Errorf("no such file %s", f.GetName())
	}
	renamer := func(f sts.File) string { return "renamed/" + f.GetName() }
	var total int64
	for _, p := range c.Parts {
		total += p.End - p.Beg
	}
	bin := NewBin(total, opener, renamer)
	for _, p := range c.Parts {
		ch := &chunk{memFile: files[p.File], beg: p.Beg, end: p.End}
		if !bin.Add(ch) || !ch.IsAllocated() {
			return fmt.Sprintf("harness: part %v did not fit into the bin", p)
		}
	}
	if c.Pre != "" {
		// a first transmission attempt: header encoded, body read
		if _, err := bin.EncodeHeader(); err != nil {
			return "EncodeHeader: " + err.Error()
		}
		_, _ = io.Copy(io.Discard, bin.GetEncoder())
		f := strings.Split(c.Pre, ":")
		var k int
		fmt.Sscan(f[1], &k)
		switch f[0] {
		case "remove": // the file of part k changed: client.startSend drops it from the payload
			bin.Remove(bin.GetParts()[k])
		case "split": // the receiver reported k leading parts: client.handleSendError splits
			tail := bin.Split(k)
			if f[2] == "tail" {
				if tail == nil {
					return ""
				}
				bin = tail
			}
		}
		// what the payload holds now is what has to arrive
		c.Parts = nil
		for _, b := range bin.GetParts() {
			beg, n := b.GetSlice()
			for i, mf := range files {
				if mf.name == b.GetName() {
					c.Parts = append(c.Parts, partSpec{File: i, Beg: beg, End: beg + n})
				}
			}
		}
		if len(c.Parts) == 0 {
			return ""
		}
	}
	header, err := bin.EncodeHeader()
	if err != nil {
		return "EncodeHeader: " + err.Error()
	}
	// what the client puts on the wire
	var wire bytes.Buffer
	var w io.Writer = &wire
	var gz *gzip.Writer
	if c.Gzip >= 0 {
		gz, _ = gzip.NewWriterLevel(&wire, c.Gzip)
		w = gz
	}
	_, _ = io.Copy(w, bytes.NewReader(header))
	_, _ = io.Copy(w, bin.GetEncoder())
	if gz != nil {
		gz.Close()
	}
	stream := wire.Bytes()
	if c.Cut > 0 && c.Cut < len(stream) {
		stream = stream[:c.Cut]
	}
	// what the server does with it
	var r io.Reader = &chunkReader{r: bytes.NewReader(stream), n: c.Buf} // the stream reaches the decoder in pieces of the case's buffer size (1 byte ... 32 KiB)
	if c.Gzip >= 0 {
		zr, err := gzip.NewReader(r)
		if err != nil {
			if c.Cut > 0 {
				return ""
			}
			return "gzip.NewReader: " + err.Error()
		}
		r = zr
	}
	dec, err := NewDecoder(len(header)+c.DLen, c.Sep, r)
	faulty := c.Cut > 0 || c.DLen != 0
	if err != nil {
		if faulty {
			return "" // refused
		}
		return "NewDecoder: " + err.Error()
	}
	parts := dec.GetParts()
	if !faulty && len(parts) != len(c.Parts) {
		return fmt.Sprintf("decoded %d part descriptors, encoded %d", len(parts), len(c.Parts))
	}
	for i := 0; ; i++ {
		pr, eof := dec.Next()
		if eof {
			if !faulty && i != len(c.Parts) {
				return fmt.Sprintf("decoder ended after %d of %d parts", i, len(c.Parts))
			}
			break
		}
		if i >= len(parts) {
			return "decoder hands out more parts than descriptors"
		}
		d := parts[i]
		var got []byte
		buf := make([]byte, c.Buf)
		for {
			n, err := pr.Read(buf)
			got = append(got, buf[:n]...)
			if err != nil {
				break
			}
			if n == 0 && len(got) > 1<<20 {
				return "part reader does not end"
			}
		}
		if i < len(c.Parts) {
			spec := c.Parts[i]
			f := files[spec.File]
			want := f.data[spec.Beg:spec.End]
			if !faulty {
				wantName := f.name
				wantPrev := f.prev
				if c.Sep != "" {
					wantName = strings.Join(strings.Split(wantName, c.Sep), "/")
					wantPrev = strings.Join(strings.Split(wantPrev, c.Sep), "/")
				}
				beg, end := d.GetSlice()
				if d.GetName() != wantName || d.GetRenamed() != "renamed/"+f.name || d.GetPrev() != wantPrev || d.GetFileHash() != f.hash ||
					!d.GetFileTime().Equal(f.t) || d.GetFileSize() != f.GetSize() || beg != spec.Beg || end != spec.End {
					return fmt.Sprintf("descriptor %d differs: decoded {%q %q %q %s %s %d [%d,%d)}, encoded {%q %q %q %s %s %d [%d,%d)}", i,
						d.GetName(), d.GetRenamed(), d.GetPrev(), d.GetFileHash(), d.GetFileTime().Format(time.RFC3339Nano), d.GetFileSize(), beg, end,
						wantName, "renamed/"+f.name, wantPrev, f.hash, f.t.Format(time.RFC3339Nano), f.GetSize(), spec.Beg, spec.End)
				}
				if !bytes.Equal(got, want) {
					return fmt.Sprintf("part %d: read %d bytes, expected %d (first difference at %d)", i, len(got), len(want), firstDiff(got, want))
				}
			} else {
				// a faulty request: whatever a part reader yields under descriptor i must be a prefix of
				// that part's bytes - and a complete part only if it is the right one
				beg, end := d.GetSlice()
				if d.GetName() == f.name && beg == spec.Beg && end == spec.End && int64(len(got)) == end-beg && !bytes.Equal(got, want) {
					return fmt.Sprintf("faulty request (cut=%d, header length off by %d): part %d was handed out complete (%d bytes) under its descriptor, but the bytes are not its bytes (first difference at %d): attributed to the wrong part",
						c.Cut, c.DLen, i, len(got), firstDiff(got, want))
				}
			}
		}
	}
	return ""
}

func firstDiff(a, b []byte) int {
	for i := 0; i < len(a) && i < len(b); i++ {
		if a[i] != b[i] {
			return i
		}
	}
	if len(a) < len(b) {
		return len(a)
	}
	return len(b)
}

// c13Guarded runs a case in a bubble: a decoder that never returns shows up as a deadlock.
func c13Guarded(t *testing.T, c c13Case) (viol string) {
	defer func() {
		if p := recover(); p != nil {
			viol = fmt.Sprintf("the decoder never finishes on this request (cut=%d, header length off by %d): %v", c.Cut, c.DLen, p)
		}
	}()
	done := false
	synctest.Test(t, func(t *testing.T) {
		ch := make(chan string, 1)
		go func() { ch <- c13Run(c) }()
		select {
		case viol = <-ch:
			done = true
		case <-time.After(time.Hour):
			viol = fmt.Sprintf("the decoder is still blocked after an hour of virtual time (cut=%d, header length off by %d): a request that never completes", c.Cut, c.DLen)
		}
	})
	_ = done
	return
}

func TestC13(t *testing.T) {
	rep := vh.NewReport("C13", "payload encode/decode round trips (exhaustive enumeration, in memory)")
	defer rep.Write()
	var rc c13Case
	if vh.ReplaySpec(&rc) {
		if v := c13Guarded(t, rc); v != "" {
			rep.Violate(c13Class(rc, v), v, rc)
		}
		rep.Executions = 1
		return
	}
	lens := []int64{1, 2, 7, 8192, 8193}
	bufs := []int{1, 3, 4096, 32768}
	gz := []int{-1, 1, 9}
	if vh.Thorough() {
		gz = []int{-1, 0, 1, 2, 3, 4, 5, 6, 7, 8, 9}
	}
	seps := []string{"", "/", "\\"}
	nameSets := [][]string{{"d/f one.dat", "d/ünï/cödé.bin"}, {"d\\w\\f", "x:y"}}
	n := 0
	run := func(c c13Case) {
		n++
		if !vh.Mine(n) {
			return
		}
		if c.Buf == 1 && (c.Gzip > 1 || c.Sep == "\\") {
			return // one-byte reads are slow; combined with the plain and level-1 streams only
		}
		rep.Executions++
		rep.States++
		rep.Transitions++ // one encode -> decode pass
		if len(c.Parts) > 1 {
			rep.Nontrivial++
		}
		if rep.Executions%997 == 1 {
			rep.Sample(c, 6)
		}
		var v string
		if c.Cut > 0 || c.DLen != 0 {
			v = c13Guarded(t, c)
		} else {
			v = c13Run(c)
		}
		rep.Outcome(fmt.Sprintf("parts=%d faulty=%v", len(c.Parts), c.Cut > 0 || c.DLen != 0))
		if v != "" {
			rep.Violate(c13Class(c, v), v, c)
		}
	}
	var seqs [][]int64
	for _, a := range lens {
		seqs = append(seqs, []int64{a})
		for _, b := range lens {
			seqs = append(seqs, []int64{a, b})
			for _, c := range lens {
				seqs = append(seqs, []int64{a, b, c})
			}
		}
	}
	for _, seq := range seqs {
		for layout := 0; layout < 4; layout++ {
			if layout >= 2 && len(seq) < 2 {
				continue
			}
			// layout 0: consecutive slices of one file starting at offset 3 (middle), file longer than the slices (end untouched)
			// layout 1: parts alternate between two files, each slice at the start / reaching the end of its file
			var c c13Case
			if layout == 0 {
				var sum int64 = 3
				for _, l := range seq {
					c.Parts = append(c.Parts, partSpec{File: 0, Beg: sum, End: sum + l})
					sum += l
				}
				c.Sizes = []int64{sum + 5, 4}
			} else if layout == 2 || layout == 3 {
				// layout 2: slices of one file with holes between them (the missing ranges of a partly
				// delivered file); layout 3: the same slices in descending order
				var sum int64 = 2
				var ps []partSpec
				for _, l := range seq {
					ps = append(ps, partSpec{File: 0, Beg: sum, End: sum + l})
					sum += l + 5
				}
				if layout == 3 {
					for i, j := 0, len(ps)-1; i < j; i, j = i+1, j-1 {
						ps[i], ps[j] = ps[j], ps[i]
					}
				}
				c.Parts = ps
				c.Sizes = []int64{sum, 4}
			} else {
				off := []int64{0, 0}
				for i, l := range seq {
					c.Parts = append(c.Parts, partSpec{File: i % 2, Beg: off[i%2], End: off[i%2] + l})
					off[i%2] += l
				}
				c.Sizes = []int64{off[0], off[1] + 1}
				if off[0] == 0 {
					c.Sizes[0] = 1
				}
			}
			for _, b := range bufs {
				for _, g := range gz {
					for si, sep := range seps {
						cc := c
						cc.Buf, cc.Gzip, cc.Sep = b, g, sep
						cc.Names = nameSets[0]
						if sep == "\\" {
							cc.Names = nameSets[1]
						}
						_ = si
						run(cc)
					}
				}
			}
		}
	}
	// a payload that is transmitted again after parts were removed from it or after it was split
	for _, seq := range seqs {
		if len(seq) != 3 {
			continue
		}
		off := []int64{0, 0}
		var c c13Case
		for i, l := range seq {
			c.Parts = append(c.Parts, partSpec{File: i % 2, Beg: off[i%2], End: off[i%2] + l})
			off[i%2] += l
		}
		c.Sizes = []int64{off[0], off[1] + 1}
		c.Names, c.Buf, c.Gzip, c.Sep = nameSets[0], 4096, -1, "/"
		for _, pre := range []string{"remove:0", "remove:1", "remove:2", "split:1:head", "split:1:tail", "split:2:head", "split:2:tail"} {
			cc := c
			cc.Pre = pre
			run(cc)
		}
	}
	// every truncation point of one 3-part payload, and header lengths that are off
	base := c13Case{Names: nameSets[0], Sizes: []int64{20, 9}, Parts: []partSpec{{0, 3, 10}, {1, 0, 8}, {0, 10, 20}}, Buf: 4096, Gzip: -1, Sep: "/"}
	for cut := 1; cut < 420; cut++ {
		cc := base
		cc.Cut = cut
		run(cc)
	}
	for _, g := range []int{-1, 6} {
		for _, dl := range []int{-40, -1, 1, 2, 7, 8, 9, 40} {
			cc := base
			cc.Gzip, cc.DLen = g, dl
			run(cc)
		}
	}
	rep.Bound = fmt.Sprintf("every payload of 1-3 parts with part lengths from {1,2,7,8192,8193} in four layouts (consecutive middle slices of one file; slices alternating between two files, at the start and reaching the end; slices of one file with holes between them, ascending and descending), read through buffers of 1/3/4096/32768 bytes, plain and gzip levels %v, separators none / '/' / '\\\\', names with spaces, unicode, ':' and the other separator, times with nanoseconds incl. 1969, 1601, 2300 and the zero time; every 3-part payload transmitted a second time after one part was removed from it or after it was split behind part 1 or 2; every truncation point of one 3-part payload; announced header lengths off by -40..+40", gz)
}

func c13Class(c c13Case, v string) string {
	if c.DLen != 0 || c.Cut > 0 {
		if strings.Contains(v, "never finishes") || strings.Contains(v, "still blocked") {
			return "decoder-blocks-on-short-header"
		}
	}
	return ""
}
