//go:build verif

package store

import (
	"fmt"
	"os"
	"path/filepath"
	"sort"
	"strings"
	"testing"
	"time"

	"github.com/arm-doe/sts/internal/verif/vh"
	"github.com/arm-doe/sts/log"
)

func init() {
	log.InitExternal(vh.NullLogger{})
}

// C17 (names found by a scan, symbolic links to files): every combination of link nodes in a
// small tree x follow on/off x hidden files on/off is scanned by the real store.Local.Scan.
// With follow on, every name under the outgoing directory that resolves to a regular file is
// found exactly once - also when several names resolve to the same file - and a dangling link
// neither shows up nor ends the scan. Without follow the regular files are found exactly once.

type c17LinkCase struct {
	Links  []string `json:"links"`
	Follow bool     `json:"follow"`
	Hidden bool     `json:"include_hidden"`
}

func TestC17Links(t *testing.T) {
	rep := vh.NewReport("C17", "names found by a scan in trees with symbolic links to files (exhaustive enumeration)")
	defer rep.Write()
	// link name -> target (relative to the sandbox: out/ is the outgoing directory)
	kit := []struct{ name, target string }{
		{"lf", "out/f"},          // second name of a file in the tree
		{"d/lg", "out/d/g"},      // the same inside a directory
		{"lo", "elsewhere/o"},    // a file outside the tree
		{"lo2", "elsewhere/o"},   // two links to one outside file
		{"ldang", "out/missing"}, // dangling
		{".hl", "out/f"},         // hidden link
	}
	var rc c17LinkCase
	replay := vh.ReplaySpec(&rc)
	n := 0
	for mask := 0; mask < 1<<len(kit); mask++ {
		for _, follow := range []bool{true, false} {
			for _, hidden := range []bool{false, true} {
				n++
				var links []string
				for i, k := range kit {
					if mask&(1<<i) != 0 {
						links = append(links, k.name)
					}
				}
				c := c17LinkCase{Links: links, Follow: follow, Hidden: hidden}
				if replay && fmt.Sprint(c) != fmt.Sprint(rc) {
					continue
				}
				if !replay && !vh.Mine(n) {
					continue
				}
				root := vh.NewSandbox()
				out := filepath.Join(root, "out")
				old := time.Now().Add(-time.Hour)
				for _, f := range []string{"out/f", "out/d/g", "out/plain", "elsewhere/o"} {
					vh.WriteFileAt(filepath.Join(root, f), []byte("content of "+f), old)
				}
				want := map[string]int{"f": 1, "d/g": 1, "plain": 1}
				for i, k := range kit {
					if mask&(1<<i) == 0 {
						continue
					}
					if err := os.Symlink(filepath.Join(root, k.target), filepath.Join(out, k.name)); err != nil {
						t.Fatal(err)
					}
					if follow && k.name != "ldang" && (hidden || !strings.HasPrefix(filepath.Base(k.name), ".")) {
						want[k.name] = 1
					}
				}
				st := &Local{Root: out, MinAge: time.Second, IncludeHidden: hidden, FollowSymlinks: follow}
				st.AddStandardIgnore()
				files, _, err := st.Scan(nil)
				got := map[string]int{}
				for _, f := range files {
					got[f.GetName()]++
				}
				rep.Executions++
				rep.States++
				rep.Transitions++
				if len(links) > 0 {
					rep.Nontrivial++
				}
				rep.Outcome(fmt.Sprintf("follow=%v found=%d", follow, len(files)))
				viol := ""
				if err != nil {
					viol = "the scan failed: " + err.Error()
				}
				var names []string
				for k := range want {
					names = append(names, k)
				}
				for k := range got {
					if _, ok := want[k]; !ok {
						names = append(names, k)
					}
				}
				sort.Strings(names)
				for _, k := range names {
					isLink := false
					for _, kk := range kit {
						if kk.name == k {
							isLink = true
						}
					}
					if !follow && isLink {
						continue // without follow a link is handed on as a link (its meta names the target): not judged here
					}
					if viol == "" && got[k] != want[k] {
						viol = fmt.Sprintf("%q (an eligible name: under the outgoing directory, resolves to a non-empty regular file one hour old) was found %d time(s) by the scan, expected %d", k, got[k], want[k])
						if want[k] == 0 {
							viol = fmt.Sprintf("%q was found %d time(s) by the scan although it is not eligible", k, got[k])
						}
					}
				}
				if viol != "" {
					rep.Violate("", fmt.Sprintf("links %v, follow=%v, include-hidden=%v: %s; found %v", links, follow, hidden, viol, got), c)
				}
				vh.RemoveSandbox(root)
			}
		}
	}
	rep.Bound = "every subset of 6 link nodes (second name of a file in the tree, the same inside a directory, two links to one file outside the tree, a dangling link, a hidden link) x follow on/off x include-hidden on/off, next to 3 regular files; real store.Local.Scan"
}
