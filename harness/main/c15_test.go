//go:build verif

package main

import (
	"bytes"
	"context"
	"encoding/json"
	"fmt"
	"io"
	"net"
	nethttp "net/http"
	"os"
	"path/filepath"
	"regexp"
	"runtime"
	"strings"
	"sync/atomic"
	"testing"
	"testing/synctest"
	"time"

	"github.com/arm-doe/sts"
	"github.com/arm-doe/sts/internal/verif/vh"
	"github.com/arm-doe/sts/internal/verif/vos"
	"github.com/arm-doe/sts/stage"
)

// Raw requests against the real receiver (serverApp.init wiring: real standardValidator,
// real handleValidate, real routes, real stages) over the in-memory network.

type recvRig struct {
	root   string
	dirs   *sts.ServerDirs
	app    *serverApp
	net    *vh.MemNet
	stop   chan bool
	done   chan bool
	client *nethttp.Client
	made   []sts.GateKeeper // every gate keeper the server ever created (one that the server forgets still has goroutines)
}

func newRecvRig(sources, keys []string, prepare func(root string, dirs *sts.ServerDirs)) *recvRig {
	vh.Epoch2011()
	r := &recvRig{root: vh.NewSandbox()}
	recv := filepath.Join(r.root, "sandbox", "recv")
	r.dirs = &sts.ServerDirs{
		LogIn: filepath.Join(recv, "logs-in"), LogMsg: filepath.Join(recv, "logs-msg"),
		Stage: filepath.Join(recv, "stage"), Final: filepath.Join(recv, "final"), Serve: filepath.Join(recv, "serve"),
	}
	for _, d := range []string{r.dirs.LogIn, r.dirs.LogMsg, r.dirs.Stage, r.dirs.Final, r.dirs.Serve} {
		_ = os.MkdirAll(d, 0755)
	}
	if prepare != nil {
		prepare(r.root, r.dirs)
	}
	vos.FixTree(r.root)
	r.net = &vh.MemNet{}
	r.net.Install()
	r.app = &serverApp{conf: &sts.ServerConf{Sources: sources, Keys: keys, Dirs: r.dirs, Server: &sts.HTTPServer{Host: "recv", Port: 1992}}}
	if err := r.app.init(); err != nil {
		panic(err)
	}
	for _, gk := range r.app.server.VerifGateKeepers() {
		r.made = append(r.made, gk)
	}
	factory := r.app.server.GateKeeperFactory
	r.app.server.GateKeeperFactory = func(source string) sts.GateKeeper {
		gk := factory(source)
		r.made = append(r.made, gk)
		return gk
	}
	r.stop = make(chan bool)
	r.done = make(chan bool, 1)
	go r.app.server.Serve(r.stop, r.done)
	synctest.Wait()
	r.client = &nethttp.Client{Transport: &nethttp.Transport{
		DialContext:       func(ctx context.Context, network, addr string) (net.Conn, error) { return r.net.Dial(addr) },
		DisableKeepAlives: true,
	}}
	return r
}

func (r *recvRig) close() {
	all := append([]sts.GateKeeper{}, r.made...)
	for _, gk := range r.app.server.VerifGateKeepers() {
		all = append(all, gk)
	}
	for _, gk := range all {
		if st, ok := gk.(*stage.Stage); ok {
			st.VerifTeardown() // idempotent
		}
	}
	r.stop <- true
	select {
	case <-r.done:
	case <-time.After(10 * time.Minute):
	}
	r.client.CloseIdleConnections()
	r.net.Uninstall()
	vh.RemoveSandbox(r.root)
}

type rawReq struct {
	Method  string            `json:"method"`
	Path    string            `json:"path"` // with query
	Headers map[string]string `json:"headers"`
	Body    string            `json:"body"`
}

func (r *recvRig) do(q rawReq) (status int, body string, err error) {
	req, err := nethttp.NewRequest(q.Method, "http://recv:1992"+q.Path, bytes.NewReader([]byte(q.Body)))
	if err != nil {
		return 0, "", err
	}
	for k, v := range q.Headers {
		req.Header.Set(k, v)
	}
	resp, err := r.client.Do(req)
	if err != nil {
		return 0, "", err
	}
	defer resp.Body.Close()
	b, _ := io.ReadAll(resp.Body)
	return resp.StatusCode, string(b), nil
}

// a well-formed one-part data request body for file name with the given content
func dataBody(name, renamed, prev, content string) (metaLen int, body string) {
	meta := []map[string]interface{}{{
		"n": name, "r": renamed, "p": prev, "f": vh.MD5([]byte(content)), "t": "1293753600+5", "s": len(content), "b": 0, "e": len(content),
	}}
	b, _ := json.Marshal(meta)
	return len(b), string(b) + content
}

// ---------------------------------------------------------------- C15

type c15Case struct {
	Sources []string `json:"sources"`
	Keys    []string `json:"keys"`
	Req     rawReq   `json:"request"`
	Source  string   `json:"source"`
	Key     string   `json:"key"`
}

var c15SourceRe = regexp.MustCompile(`^[a-z0-9\.\-/]+$`)

func c15Allowed(sources, keys []string, source, key string) bool {
	in := func(x string, l []string) bool {
		for _, y := range l {
			if x == y {
				return true
			}
		}
		return false
	}
	if len(sources) > 0 && (!c15SourceRe.MatchString(source) || !in(source, sources)) {
		return false
	}
	if len(keys) > 0 && !in(key, keys) {
		return false
	}
	return true
}

func TestC15Auth(t *testing.T) {
	rep := vh.NewReport("C15", "authorisation of every validated route (exhaustive enumeration against the real server)")
	defer rep.Write()
	srcLists := [][]string{nil, {"a"}, {"a", "b/c", "n"}} // n: an allowed source that has no directory, hence no gate keeper, when the first request naming a case variant of it arrives
	// (a key may contain ':' - the project's own client ids are key:uid - so the pair (a, "k:x")
	// and the pair ("a:k", x) must not be confused)
	keyLists := [][]string{nil, {"k"}, {"k", "l"}, {"k", "k:x"}}
	srcVals := []string{"a", "b/c", "z", "", "A", "a/", "b", "a.*", ".*", "b/c/..", "a b", "a:k", "N"}
	keyVals := []string{"k", "l", "wrong", "", "K", "k ", ".*", "k:x", "x"}
	type route struct {
		method, path string
		body         bool
	}
	routes := []route{
		{"PUT", "/data", true}, {"PUT", "/data-recovery", true}, {"POST", "/validate", true}, {"GET", "/partials", false},
		{"GET", "/static/x", false}, {"DELETE", "/static/x", false},
		{"GET", "/data", false}, {"POST", "/data", true}, {"PUT", "/validate", true}, {"DELETE", "/partials", false}, {"PUT", "/static/x", true},
	}
	var rc c15Case
	replay := vh.ReplaySpec(&rc)
	n := 0
	for _, sl := range srcLists {
		for _, kl := range keyLists {
			n++
			if !replay && !vh.Mine(n) {
				continue
			}
			if replay && (fmt.Sprint(sl) != fmt.Sprint(rc.Sources) || fmt.Sprint(kl) != fmt.Sprint(rc.Keys)) {
				continue
			}
			synctest.Test(t, func(t *testing.T) {
				r := newRecvRig(sl, kl, func(root string, dirs *sts.ServerDirs) {
					// something for an authorised sender to be told about, and to be disturbed
					vh.WriteFileAt(filepath.Join(dirs.Serve, "a", "x"), []byte("served file of a"), time.Now())
					vh.WriteFileAt(filepath.Join(dirs.Serve, "z", "x"), []byte("served file of z"), time.Now())
					for _, s := range []string{"a", "b--c", "z"} {
						_ = os.MkdirAll(filepath.Join(dirs.Stage, s), 0755)
					}
				})
				defer r.close()
				synctest.Wait()
				authSource, authKey := "a", "k"
				// what the receiver knows about the authorised sender in memory only: a file that is
				// validated and held for a predecessor that never comes, and a file that failed validation
				for _, up := range []struct{ name, prev, content, hashOf string }{
					{"held", "never-sent", "HELD DATA", "HELD DATA"}, {"bad", "", "BAD DATA", "something else"},
				} {
					meta := []map[string]interface{}{{"n": up.name, "r": "", "p": up.prev, "f": vh.MD5([]byte(up.hashOf)), "t": "1293753600+5", "s": len(up.content), "b": 0, "e": len(up.content)}}
					mb, _ := json.Marshal(meta)
					st, _, err := r.do(rawReq{Method: "PUT", Path: "/data?v=1", Headers: map[string]string{"X-STS-SrcName": authSource, "X-STS-Key": authKey, "X-STS-MetaLen": fmt.Sprint(len(mb)), "X-STS-Sep": "/"}, Body: string(mb) + up.content})
					if err != nil || st != 200 {
						panic(fmt.Sprintf("harness: upload of %s by the authorised sender: status %d err %v", up.name, st, err))
					}
					synctest.Wait()
				}
				probe := func() string {
					var out []string
					for _, q := range []rawReq{
						{Method: "GET", Path: "/partials?v=1", Headers: map[string]string{"X-STS-SrcName": authSource, "X-STS-Key": authKey}},
						{Method: "POST", Path: "/validate?v=1", Headers: map[string]string{"X-STS-SrcName": authSource, "X-STS-Key": authKey, "Content-Type": "application/json"},
							Body: `[{"n":"f1","t":1293753600},{"n":"probe","t":1293753600},{"n":"held","t":1293753600},{"n":"bad","t":1293753600}]`},
					} {
						st, body, _ := r.do(q)
						out = append(out, fmt.Sprintf("%d %s", st, body))
					}
					return strings.Join(out, " | ")
				}
				for _, sv := range srcVals {
					for _, kv := range keyVals {
						for _, viaQuery := range []bool{false, true} {
							for _, rt := range routes {
								q := rawReq{Method: rt.method, Path: rt.path, Headers: map[string]string{}}
								if viaQuery {
									q.Path += "?v=1&source=" + strings.ReplaceAll(strings.ReplaceAll(sv, " ", "%20"), "*", "%2A") + "&key=" + strings.ReplaceAll(strings.ReplaceAll(kv, " ", "%20"), "*", "%2A")
								} else {
									q.Path += "?v=1"
									if sv != "" {
										q.Headers["X-STS-SrcName"] = sv
									}
									if kv != "" {
										q.Headers["X-STS-Key"] = kv
									}
								}
								if rt.body {
									ml, body := dataBody("f1", "", "", "DATA of f1")
									q.Body = body
									q.Headers["X-STS-MetaLen"] = fmt.Sprint(ml)
									q.Headers["X-STS-Sep"] = "/"
									if rt.path == "/validate" {
										q.Body = `[{"n":"f1","t":1293753600}]`
										q.Headers["Content-Type"] = "application/json"
									}
								}
								if replay && fmt.Sprint(q) != fmt.Sprint(rc.Req) {
									continue
								}
								esv, ekv := sv, kv
								if !viaQuery {
									// leading and trailing white space of a header value is not part of the value (RFC 9110)
									esv, ekv = strings.TrimSpace(sv), strings.TrimSpace(kv)
								}
								allowed := c15Allowed(sl, kl, esv, ekv)
								var before, probeBefore string
								if !allowed || sv == "" {
									before = vh.ListString(filepath.Join(r.root, "sandbox"))
									probeBefore = probe()
								}
								status, _, err := r.do(q)
								synctest.Wait()
								rep.Executions++
								rep.States++
								rep.Transitions++ // one request handled by the server
								if rep.Executions%1499 == 1 {
									rep.Sample(c15Case{Sources: sl, Keys: kl, Req: q, Source: sv, Key: kv}, 6)
								}
								if !allowed {
									rep.Nontrivial++
								}
								rep.Outcome(fmt.Sprintf("allowed=%v status=%d", allowed && sv != "", status))
								c := c15Case{Sources: sl, Keys: kl, Req: q, Source: sv, Key: kv}
								desc := fmt.Sprintf("sources=%v keys=%v: %s %s source=%q key=%q (%s)", sl, kl, q.Method, rt.path, sv, kv, map[bool]string{true: "query string", false: "headers"}[viaQuery])
								if err != nil {
									rep.Violate("", desc+": request failed: "+err.Error(), c)
									continue
								}
								switch {
								case sv == "":
									if status != 400 {
										rep.Violate("", fmt.Sprintf("%s: no source named, status %d (want 400)", desc, status), c)
									}
								case !allowed:
									if status != 403 {
										rep.Violate("", fmt.Sprintf("%s: not allowed, status %d (want 403)", desc, status), c)
									}
								default:
									if status == 403 {
										rep.Violate("", fmt.Sprintf("%s: allowed by the configuration, yet refused with 403", desc), c)
									}
								}
								if !allowed || sv == "" {
									if after := vh.ListString(filepath.Join(r.root, "sandbox")); after != before {
										rep.Violate("", fmt.Sprintf("%s: refused (status %d) but the receiver's directories changed:\n--- before\n%s--- after\n%s", desc, status, before, after), c)
									}
									if pa := probe(); pa != probeBefore {
										rep.Violate("", fmt.Sprintf("%s: refused (status %d) but an authorised sender is told something else afterwards: before %q, after %q", desc, status, probeBefore, pa), c)
									}
								}
							}
						}
					}
				}
				// a sender whose first request comes after all of the above (among them refused requests
				// naming case variants of it) is served under its own name
				if !replay && c15Allowed(sl, kl, "n", "k") {
					meta := []map[string]interface{}{{"n": "late", "r": "", "p": "", "f": vh.MD5([]byte("LATE")), "t": "1293753600+5", "s": 4, "b": 0, "e": 4}}
					mb, _ := json.Marshal(meta)
					st, _, err := r.do(rawReq{Method: "PUT", Path: "/data?v=1", Headers: map[string]string{"X-STS-SrcName": "n", "X-STS-Key": "k", "X-STS-MetaLen": fmt.Sprint(len(mb)), "X-STS-Sep": "/"}, Body: string(mb) + "LATE"})
					synctest.Wait()
					rep.Executions++
					if b, rerr := os.ReadFile(filepath.Join(r.dirs.Final, "n", "late")); err != nil || st != 200 || rerr != nil || string(b) != "LATE" {
						rep.Violate("", fmt.Sprintf("sources=%v keys=%v: after the enumerated requests (refused ones among them) the authorised source n sends its first file: status %d err %v, and the file is not delivered to final/n/late; receiver directories:\n%s", sl, kl, st, err, vh.ListString(filepath.Join(r.root, "sandbox"))), c15Case{Sources: sl, Keys: kl, Source: "n", Key: "k"})
					}
				}
			})
		}
	}
	rep.Bound = "source lists {none, [a], [a, b/c, n]} x key lists {none, [k], [k, l]} x presented source {a, b/c, z, none, A, a/, b, a.*, .*, b/c/.., 'a b', a:k, N} x presented key {k, l, wrong, none, K, 'k ', .*} x {headers, query string} x 11 route/method pairs (data, data-recovery, validate, partials, static GET/DELETE and wrong methods); reference: the three-line predicate of the statement; refused requests: before/after listing of all receiver directories and an authorised sender's poll + partials answers (the sender has a file held for its predecessor and a file that failed validation: known to the receiver in memory only); at the end the allowed source n, of which only the refused variant N was seen so far, sends its first file and must find it under final/n"
}

// ---------------------------------------------------------------- C15: requests during start-up recovery

func TestC15Recovery(t *testing.T) {
	rep := vh.NewReport("C15", "requests at every file-system step of start-up recovery (fault-point enumeration)")
	defer rep.Write()
	type probeRes struct {
		op, status string
	}
	// The stage directory is prepared before the receiver starts: serverApp.init finds it, creates
	// the source's stage and starts `go stager.Recover()` itself (nothing is wired by hand).
	run := func(source string, at int) (nOps int, bad string) {
		synctest.Test(t, func(t *testing.T) {
			var r *recvRig
			ready := make(chan bool)
			var ops atomic.Int64
			var probed atomic.Bool
			hdr := map[string]string{"X-STS-SrcName": source}
			ml, body := dataBody("e", "", "", "new data")
			probes := []rawReq{
				{Method: "POST", Path: "/validate?v=1", Headers: map[string]string{"X-STS-SrcName": source, "Content-Type": "application/json"}, Body: `[{"n":"a","t":1293753600}]`},
				{Method: "GET", Path: "/partials?v=1", Headers: hdr},
				{Method: "PUT", Path: "/data?v=1", Headers: map[string]string{"X-STS-SrcName": source, "X-STS-MetaLen": fmt.Sprint(ml), "X-STS-Sep": "/"}, Body: body},
				{Method: "PUT", Path: "/data-recovery?v=1", Headers: map[string]string{"X-STS-SrcName": source, "X-STS-Sep": "/"}, Body: body[:ml]},
				{Method: "GET", Path: "/static/x", Headers: hdr},
			}
			r = newRecvRig(nil, nil, func(root string, dirs *sts.ServerDirs) {
				// a complete but unvalidated file, a validated file held for it, and a partial one
				st := filepath.Join(dirs.Stage, strings.ReplaceAll(source, "/", "--"))
				now := time.Now()
				mk := func(name, ext, data, prev string, ranges [][2]int64) {
					vh.WriteFileAt(filepath.Join(st, name+ext), []byte(data), now)
					cmp := &sts.Partial{Name: name, Prev: prev, Size: int64(len(data)), Hash: vh.MD5([]byte(data)), Source: source}
					for _, rg := range ranges {
						cmp.Parts = append(cmp.Parts, &sts.ByteRange{Beg: rg[0], End: rg[1]})
					}
					b, _ := json.Marshal(cmp)
					vh.WriteFileAt(filepath.Join(st, name+".cmp"), b, now)
				}
				mk("a", ".part", "AAAABBBB", "", [][2]int64{{0, 4}, {4, 8}})
				mk("b", ".wait", "CCCC", "a", [][2]int64{{0, 4}})
				mk("c", ".full", "DDDDDD", "", [][2]int64{{0, 6}})
				mk("d", ".part", "EEEE\x00\x00\x00\x00", "", [][2]int64{{0, 4}})
				vos.Hook = func(op, p1, p2 string) error {
					if !strings.HasPrefix(p1, root) {
						return nil
					}
					// only steps taken by Recover itself or by the validators it waits for: those are
					// certainly inside the recovery (the finalizer it feeds may outlive it)
					if !onStack("stage.(*Stage).Recover") {
						return nil
					}
					k := int(ops.Add(1))
					if k != at {
						return nil
					}
					vos.Hook = nil // the probes' own effects are not steps of the recovery
					<-ready      // the receiver is serving by now
					probed.Store(true)
					for _, q := range probes {
						status, _, err := r.do(q)
						if err != nil || status != 503 {
							bad = fmt.Sprintf("recovery of source %s is at its file-system step %d (%s %s): %s %s is answered %d (err %v), not 503 (unavailable)", source, k, op, strings.TrimPrefix(p1, root), q.Method, q.Path, status, err)
							break
						}
					}
					return nil
				}
			})
			defer r.close()
			r.client.Timeout = 30 * time.Second // a request that got through may block on a lock the interrupted step holds
			close(ready)
			// recovery runs in the goroutine serverApp.init started; wait for it to finish
			for i := 0; i < 600; i++ {
				synctest.Wait()
				allReady := true
				for _, gk := range r.app.server.VerifGateKeepers() {
					allReady = allReady && gk.Ready()
				}
				if allReady && (at == 0 || probed.Load() || i > 5) {
					break
				}
				time.Sleep(time.Second)
			}
			vos.Hook = nil
			nOps = int(ops.Load())
			synctest.Wait()
		})
		return
	}
	// Several sources with leftover stage directories: every recovery is held at its first
	// file-system step; once nothing moves any more, each of those sources has to answer 503
	// (a source whose recovery has not even begun is no less "still recovering").
	runAll := func(n int) (bad string) {
		synctest.Test(t, func(t *testing.T) {
			var r *recvRig
			release := make(chan bool)
			var held atomic.Int64
			var names []string
			for i := 0; i < n; i++ {
				names = append(names, fmt.Sprintf("src%d", i))
			}
			r = newRecvRig(nil, nil, func(root string, dirs *sts.ServerDirs) {
				now := time.Now()
				for _, source := range names {
					st := filepath.Join(dirs.Stage, source)
					data := "AAAABBBB"
					vh.WriteFileAt(filepath.Join(st, "a.part"), []byte(data), now)
					cmp := &sts.Partial{Name: "a", Size: int64(len(data)), Hash: vh.MD5([]byte(data)), Source: source,
						Parts: []*sts.ByteRange{{Beg: 0, End: 4}, {Beg: 4, End: 8}}}
					b, _ := json.Marshal(cmp)
					vh.WriteFileAt(filepath.Join(st, "a.cmp"), b, now)
				}
				vos.Hook = func(op, p1, p2 string) error {
					if strings.HasPrefix(p1, root) && onStack("stage.(*Stage).Recover") {
						held.Add(1)
						<-release // held here until the probes are done
					}
					return nil
				}
			})
			defer r.close()
			r.client.Timeout = 30 * time.Second
			time.Sleep(time.Second)
			synctest.Wait() // nothing moves any more: every recovery that could start is held
			for _, source := range names {
				status, _, err := r.do(rawReq{Method: "GET", Path: "/partials?v=1", Headers: map[string]string{"X-STS-SrcName": source}})
				if err != nil || status != 503 {
					bad = fmt.Sprintf("%d sources have a leftover stage directory, %d start-up recoveries are under way (each held at its first file-system step) and none has finished: GET /partials of source %s is answered %d (err %v), not 503 (unavailable)", n, held.Load(), source, status, err)
					break
				}
			}
			vos.Hook = nil
			close(release)
			for i := 0; i < 120; i++ {
				synctest.Wait()
				allReady := true
				for _, gk := range r.app.server.VerifGateKeepers() {
					allReady = allReady && gk.Ready()
				}
				if allReady {
					break
				}
				time.Sleep(time.Second)
			}
		})
		return
	}
	var rc struct {
		Source string `json:"source"`
		At     int    `json:"at"`
		All    int    `json:"all_sources"`
	}
	if vh.ReplaySpec(&rc) {
		if rc.All > 0 {
			if bad := runAll(rc.All); bad != "" {
				rep.Violate("", bad, rc)
			}
			rep.Executions = 1
			return
		}
		if rc.Source == "" {
			rc.Source = "src"
		}
		if _, bad := run(rc.Source, rc.At); bad != "" {
			rep.Violate("", bad, rc)
		}
		rep.Executions = 1
		return
	}
	total, n := 0, 0
	for _, k := range []int{2, 6, 9} {
		n++
		if !vh.Mine(n) {
			continue
		}
		bad := runAll(k)
		rep.Executions++
		rep.States++
		rep.Transitions += int64(k)
		rep.Nontrivial++
		rep.Outcome("all held")
		if bad != "" {
			rep.Violate("", bad, map[string]interface{}{"all_sources": k})
		}
	}
	for _, source := range []string{"src", "site/inst"} {
		tot, _ := run(source, 0)
		rep.Executions++
		total += tot
		for at := 1; at <= tot; at++ {
			n++
			if !vh.Mine(n) {
				continue
			}
			_, bad := run(source, at)
			rep.Executions++
			rep.States++
			rep.Transitions += 5 // five probe requests
			rep.Nontrivial++
			rep.Sample(map[string]interface{}{"source": source, "recovery_step": at}, 3)
			rep.Outcome("probed")
			if bad != "" {
				rep.Violate("", bad, map[string]interface{}{"source": source, "at": at})
			}
		}
	}
	rep.Count("file-system steps of the recovery", int64(total))
	rep.Bound = "2, 6 and 9 sources with leftover stage directories, every recovery held at its first file-system step, each source probed; and for each of the source names src and site/inst (a name with a path separator, kept in the directory site--inst): a stage directory holding a complete unvalidated .part, a validated .wait held for it, a .full and an incomplete .part; the receiver is started on it, and the Stage.Recover() that serverApp.init itself starts is interrupted before each file-system mutation made by Recover itself and by the validators it waits for (renames of complete partials, validation renames) and a poll, partials, data, data-recovery and static request is issued through the real server at that instant: each must be answered 503"
}

// onStack reports whether a function whose name contains fn is on the calling goroutine's stack.
func onStack(fn string) bool {
	pcs := make([]uintptr, 64)
	n := runtime.Callers(2, pcs)
	frames := runtime.CallersFrames(pcs[:n])
	for {
		f, more := frames.Next()
		if strings.Contains(f.Function, fn) {
			return true
		}
		if !more {
			return false
		}
	}
}
