//go:build verif

package main

import (
	"fmt"
	"os"
	"strings"
	"testing"
	"testing/synctest"
	"time"

	"github.com/arm-doe/sts/internal/verif/vh"
)

var envT *testing.T
var oneShotNow bool // the scenario being explored is a one-shot run
var leakedBubbles int64

// envRun executes one plan on a fresh rig in a fresh bubble; check evaluates the property.
func envRun(conf rigConf, plan []vh.Deviation, setup func(r *rig), goal func(r *rig) bool, check func(r *rig) (viol, class, outcome string)) (res vh.EnvRun) {
	defer func() {
		// Goroutines that the code under test leaves blocked for good (e.g. Broker.Start's stop
		// relay when nobody is left to take its message) cannot be ended from outside; the
		// bubble then ends with this panic, after the run has been evaluated. Tolerated, counted.
		if p := recover(); p != nil {
			if !strings.Contains(fmt.Sprint(p), "blocked goroutines remain") {
				panic(p)
			}
			leakedBubbles++
		}
	}()
	synctest.Test(envT, func(t *testing.T) {
		var p Plan
		for _, d := range plan {
			p = append(p, Deviation{At: d.At, Do: d.Do})
		}
		r := newRig(conf, p)
		if setup != nil {
			setup(r)
		}
		r.run(goal)
		res.Viol, res.Class, res.Outcome = check(r)
		if res.Viol == "" && r.viol != "" {
			res.Viol, res.Class = r.viol, r.class
		}
		for _, e := range r.events {
			res.Events = append(res.Events, vh.EnvEvent{Key: e.Key, Menu: e.Menu})
		}
		for _, d := range plan {
			if !r.used[d.At] {
				res.Unused = append(res.Unused, d.At)
			}
		}
		r.close()
	})
	return
}

func pick(menu []string, prefixes ...string) []string {
	var out []string
	for _, m := range menu {
		for _, p := range prefixes {
			if m == p || (strings.HasSuffix(p, ":") && strings.HasPrefix(m, p)) {
				out = append(out, m)
			}
		}
	}
	return out
}

func kindOf(key string) string { return key[:strings.Index(key, ":")] }

// ---------------------------------------------------------------- scenarios

func confTwoThreads() rigConf {
	return rigConf{
		Name: "src",
		Files: []rigFile{
			{Name: "g/a", Data: strings.Repeat("A", 40), Age: 300},
			{Name: "g/b", Data: strings.Repeat("B", 16), Age: 200},
			{Name: "h/c", Data: strings.Repeat("C", 24), Age: 100},
		},
		Threads: 2, BinSize: 32, Ordered: true, Delete: true, OneShot: true,
		ScanDelay: 30 * time.Second, PollDelay: 2 * time.Second, PollInterval: 5 * time.Second, PollAttempts: 3, PollMaxCount: 2,
		Horizon: 6 * time.Hour,
	}
}

// confManyFiles: more payloads than the pipeline's channels hold (1 thread: capacity 2 each).
func confManyFiles() rigConf {
	c := confTwoThreads()
	c.Threads = 1
	c.Files = nil
	for i := 0; i < 8; i++ {
		c.Files = append(c.Files, rigFile{Name: fmt.Sprintf("g/f%d", i), Data: strings.Repeat(string(rune('a'+i)), 30), Age: 300 - i})
	}
	return c
}

// confChunked: one 60-byte file sent in 10-byte chunks, two to a payload, by two threads: a failed
// payload leaves the receiver with a hole in the middle of the file, i.e. with several missing
// ranges of which one is longer than a chunk.
func confChunked() rigConf {
	c := confTwoThreads()
	c.BinSize = 20
	c.ChunkSize = 10
	c.Files = []rigFile{{Name: "g/a", Data: strings.Repeat("A", 20) + strings.Repeat("B", 20) + strings.Repeat("C", 20), Age: 400}}
	return c
}

// confOneGroup: four files of one ordered group; with two threads a failure of the first
// payload leaves the receiver with later files complete (held) while the first is not.
func confOneGroup() rigConf {
	c := confTwoThreads()
	c.Files = []rigFile{
		{Name: "g/a", Data: strings.Repeat("A", 40), Age: 400},
		{Name: "g/b", Data: strings.Repeat("B", 10), Age: 300},
		{Name: "g/c", Data: strings.Repeat("C", 14), Age: 200},
		{Name: "g/d", Data: strings.Repeat("D", 32), Age: 100},
	}
	return c
}

func confOneThread() rigConf {
	c := confTwoThreads()
	c.Threads = 1
	c.Files = []rigFile{
		{Name: "g/a", Data: strings.Repeat("A", 20), Age: 300},
		{Name: "g/b", Data: strings.Repeat("B", 30), Age: 200},
	}
	return c
}

// asDaemon: the sender runs in a loop (as with --loop) until it is stopped.
func asDaemon(c rigConf) rigConf {
	c.OneShot = false
	return c
}

// goalDelivered: everything is delivered, confirmed and released.
func goalDelivered(r *rig) bool { return r.c03Goal() == "" }

// ---------------------------------------------------------------- C08

func reverseParts(c rigConf) rigConf {
	c.ReverseParts = true
	return c
}

func deleteDelay(c rigConf, d time.Duration) rigConf {
	c.DeleteDelay = d
	return c
}

func damageFirst(c rigConf) rigConf {
	c.DamageFirst = true
	return c
}

func minAge(c rigConf, d time.Duration) rigConf {
	c.MinAge = d
	return c
}

func slowReads(c rigConf) rigConf {
	c.SlowRead = true
	return c
}

func TestC08Env(t *testing.T) {
	envT = t
	rep := vh.NewReport("C08", "failed requests on the wire (E-ENV)")
	defer rep.Write()
	maxDev := 2
	if vh.Thorough() {
		maxDev = 3
	}
	rewrites := func(r *rig) { r.fileOps = []string{"rewrite"} }
	for _, sc := range []struct {
		name  string
		conf  rigConf
		setup func(r *rig)
	}{{"3 files, 2 threads", confTwoThreads(), nil}, {"2 files, 1 thread", confOneThread(), nil}, {"2 files, 1 thread, daemon", asDaemon(confOneThread()), nil},
		{"3 files, 2 threads, source files read slowly (payloads of the two threads encoded at the same time)", slowReads(confTwoThreads()), nil},
		{"3 files, 2 threads, a file rewritten after it was hashed (its parts are dropped from a failed payload)", confTwoThreads(), rewrites}} {
		sc := sc
		e := &vh.Env{Rep: rep, Scenario: sc.name, MaxDev: maxDev,
			Run: func(plan []vh.Deviation) vh.EnvRun {
				return envRun(sc.conf, plan, sc.setup, goalDelivered, func(r *rig) (string, string, string) {
					if v := r.c08Wire(); v != "" {
						cl := ""
						if strings.Contains(v, "the sender sent") {
							cl = c08Class(r)
						}
						return v + "\n" + r.traceString(), cl, ""
					}
					if !r.finished {
						return "", "", "not finished"
					}
					nfail := 0
					for _, w := range r.wire {
						if w.Err != "" {
							nfail++
						}
					}
					return "", "", fmt.Sprintf("finished, %d failed requests", nfail)
				})
			},
			Alternatives: func(ev vh.EnvEvent, plan []vh.Deviation) []string {
				switch kindOf(ev.Key) {
				case "data":
					return pick(ev.Menu, "refuse", "lost", "gkfail:", "cut:", "unavail", "stop-n")
				case "recovery":
					return pick(ev.Menu, "refuse", "lost", "stop-n")
				case "persist":
					// (only in the scenario that allows file changes) the cache write follows the hashing:
					// a file rewritten now is transmitted with stale metadata and found changed afterwards
					if len(plan) == 0 {
						return pick(ev.Menu, "file:rewrite:")
					}
				}
				return nil
			},
		}
		e.Explore()
	}
	rep.Bound = fmt.Sprintf("all plans with <= %d deviations over: every data request (refused; answer lost after processing; receiver error on part k -> 206 with count; connection cut at part k) and every data-recovery request (refused; answer lost), an immediate stop arriving at any of these requests, including the requests that exist only because of an earlier deviation; scenarios: 3 files / 2 sender threads / payload 32 B and 2 files / 1 thread as one-shot runs to completion, 2 files / 1 thread as a daemon (where a stop request takes effect)", maxDev)
}

// c08Class: the retry repeated parts although the 206 answer carried a count.
func c08Class(r *rig) string {
	for _, w := range r.wire {
		if w.Kind == "data" && w.Err != "" && w.N > 0 {
			return "count-of-206-ignored"
		}
	}
	return ""
}

// ---------------------------------------------------------------- generic runner for rig properties

type envScenario struct {
	name   string
	conf   rigConf
	setup  func(r *rig)
	maxDev int // 0: the property's default
}

func esc(name string, conf rigConf, setup func(r *rig)) envScenario {
	return envScenario{name: name, conf: conf, setup: setup}
}

func runEnvProperty(t *testing.T, prop, part string, scs []envScenario, maxDev int, alts func(ev vh.EnvEvent, plan []vh.Deviation) []string,
	check func(r *rig) (string, string, string), bound string) {
	envT = t
	rep := vh.NewReport(prop, part)
	defer rep.Write()
	for _, sc := range scs {
		sc := sc
		md := maxDev
		if sc.maxDev > 0 {
			md = sc.maxDev
		}
		e := &vh.Env{Rep: rep, Scenario: sc.name, MaxDev: md,
			Run: func(plan []vh.Deviation) vh.EnvRun {
				chk := check
				if os.Getenv("VERIF_TRACE") != "" { // debugging aid: print the trace of every run (use with a replay)
					chk = func(r *rig) (string, string, string) {
						fmt.Println(r.traceString() + r.treeDump())
						return check(r)
					}
				}
				return envRun(sc.conf, plan, sc.setup, goalDelivered, chk)
			},
			Alternatives: alts,
		}
		oneShotNow = sc.conf.OneShot
		e.Explore()
	}
	rep.Count("bubbles that ended with goroutines left blocked by the code under test", leakedBubbles)
	rep.Bound = bound
}

// faultAlts: the request-failure menu used by several properties.
func faultAlts(ev vh.EnvEvent, restarts bool) []string {
	var out []string
	switch kindOf(ev.Key) {
	case "data":
		out = pick(ev.Menu, "refuse", "lost", "gkfail:", "cut:", "corrupt:", "unavail")
	case "recovery", "validate":
		out = pick(ev.Menu, "refuse", "lost")
	case "partials":
		out = pick(ev.Menu, "refuse")
	}
	if restarts {
		switch kindOf(ev.Key) {
		case "data", "validate":
			out = append(out, pick(ev.Menu, "recv-restart", "crash")...)
		}
	}
	return out
}

// ---------------------------------------------------------------- C03: liveness after transient failures

func c03Check(r *rig) (string, string, string) {
	if v := r.c01Final(); v != "" {
		return v + "\n" + r.traceString(), "", ""
	}
	if g := r.c03Goal(); g != "" {
		return fmt.Sprintf("C03: %.0f s of failure-free virtual time after the last deviation the goal is not reached: %s\n%s", (r.now() - r.lastDev).Seconds(), g, r.traceString()), "", ""
	}
	if r.conf.OneShot && !r.finished {
		return "C03/C16: everything is delivered, but the one-shot sender has not exited\n" + r.traceString(), "", ""
	}
	return "", "", fmt.Sprintf("goal reached at %.0fs", r.now().Seconds())
}

func TestC03Env(t *testing.T) {
	d := 2
	cron := confTwoThreads()
	cron.Rerun = true // a one-shot sender that exits with a failed file left is invoked again
	chunked := confChunked()
	chunked.Rerun = true
	scs := []envScenario{esc("3 files, 2 threads, one-shot invoked every minute", cron, nil), esc("2 files, 1 thread, daemon", asDaemon(confOneThread()), nil),
		esc("1 file in 10-byte chunks, payloads of 2 chunks, 2 threads, one-shot invoked every minute", chunked, nil)}
	if vh.Thorough() {
		d = 3
		scs = scs[1:]
		scs = append(scs, esc("3 files, 2 threads, one-shot invoked every minute", cron, nil))
	}
	runEnvProperty(t, "C03", "transient failures, then a failure-free period (E-ENV)", scs, d,
		func(ev vh.EnvEvent, plan []vh.Deviation) []string {
			if vh.Thorough() && len(plan) >= 2 && strings.Contains(ev.Key, "#") && false {
				return nil
			}
			return faultAlts(ev, true)
		}, c03Check,
		fmt.Sprintf("all plans with <= %d deviations over: data request refused / answer lost / receiver error on part k / connection cut at part k / a byte of part k flipped in transit; recovery and poll requests refused / answer lost; partials request refused; receiver restart and sender crash at any data or poll request; followed by 6 h of failure-free virtual time (scan delay 30 s, poll interval 5 s, 3 poll attempts); goal: every file in the final directory, released at the source, nothing of an undelivered version left in staging, one-shot sender exited", d))
}

// ---------------------------------------------------------------- C16: stops

func c16Check(r *rig) (string, string, string) {
	tr := func() string { return r.traceString() }
	if r.stopped == "" {
		// no stop requested by the plan: the one-shot case (graceful stop right after start)
		if r.conf.OneShot {
			if !r.finished {
				return "C16: the one-shot run did not exit\n" + tr(), "", ""
			}
			if v := r.c16Drained(); v != "" {
				return "C16: the one-shot run exited before its work was done: " + v + "\n" + tr(), "", ""
			}
		}
		return "", "", "no stop"
	}
	if !r.finished && r.now()-r.stopAt < 60*time.Second {
		// the run ended (goal reached on the harness's own clock tick) at the very instant the plan's
		// stop was issued by a sender goroutine: the sender was never given time to act on it
		return "", "", "run over when the stop was requested"
	}
	if !r.finished {
		return fmt.Sprintf("C16: %s stop requested at %.3fs; the sender has not exited %.0f s (virtual) later\n%s\nsender goroutines:\n%s", r.stopped, r.stopAt.Seconds(), (r.now() - r.stopAt).Seconds(), tr(), r.stuck()), "", ""
	}
	took := r.doneAt - r.stopAt
	if r.stopped == "now" && took > 60*time.Second {
		return fmt.Sprintf("C16: immediate stop requested at %.3fs, the sender exited only %.0f s later\n%s", r.stopAt.Seconds(), took.Seconds(), tr()), "", ""
	}
	persisted := r.cacheEntries()
	for _, w := range r.wire {
		if w.Kind != "validate" || w.Err != "" || w.Gen != r.gen {
			continue
		}
		for name, code := range w.Answers {
			if code != 2 && code != 3 {
				continue
			}
			if c, ok := persisted[name]; ok && !c.Done {
				return fmt.Sprintf("C16: %s was confirmed (poll answer %d) before the sender exited, but the persisted queue cache does not record it as done\n%s", name, code, tr()), "", ""
			}
		}
	}
	if r.stopped == "graceful" {
		if v := r.c16Drained(); v != "" {
			return "C16: the sender exited after a graceful stop before its work was done: " + v + "\n" + tr(), "", ""
		}
	}
	return "", "", fmt.Sprintf("%s stop, exit after %.0fs", r.stopped, took.Seconds())
}

func TestC16Env(t *testing.T) {
	d := 2
	if vh.Thorough() {
		d = 3
	}
	scs := []envScenario{
		esc("2 files, 1 thread, daemon", asDaemon(confOneThread()), nil),
		esc("3 files, 2 threads, daemon", asDaemon(confTwoThreads()), nil),
		esc("3 files, 2 threads, one-shot", confTwoThreads(), nil),
		esc("8 files, 1 thread, daemon (pipeline fills up)", asDaemon(confManyFiles()), nil),
		{"8 files, 1 thread, daemon, every part damaged in transit once (every file fails validation once; one deviation less)", damageFirst(asDaemon(confManyFiles())), nil, d - 1},
	}
	// many small files (several per hash batch, more batches than the hand-over channel holds): a stop
	// can arrive at every opening of a file, i.e. also while the scan is still hashing
	small := asDaemon(confManyFiles())
	small.Files = nil
	for i := 0; i < 14; i++ {
		small.Files = append(small.Files, rigFile{Name: fmt.Sprintf("g/s%02d", i), Data: strings.Repeat(string(rune('a'+i)), 10), Age: 300 - i})
	}
	small.OpenEvents = true
	scs = append(scs, envScenario{"14 small files, 1 thread, daemon, a stop at every opening of a source file (one deviation)", small, nil, 1})
	for i := range scs {
		scs[i].conf.Horizon = 20 * time.Minute
	}
	runEnvProperty(t, "C16", "stop request at every sender action (E-ENV)", scs, d,
		func(ev vh.EnvEvent, plan []vh.Deviation) []string {
			for _, dv := range plan {
				if strings.HasPrefix(dv.Do, "stop-") {
					return nil // one stop per run
				}
			}
			out := pick(ev.Menu, "stop-g", "stop-n")
			if oneShotNow {
				out = nil // the one stop a Broker takes was issued right after start
			}
			if len(plan) <= d-2 || oneShotNow {
				switch kindOf(ev.Key) {
				case "data":
					out = append(out, pick(ev.Menu, "refuse", "gkfail:", "corrupt:", "down:60")...)
				case "validate":
					out = append(out, pick(ev.Menu, "refuse")...)
				}
				if oneShotNow && len(plan) == 0 {
					// the one-shot run that follows one that died: it starts with what the dead one left in
					// the queue cache (and, like every one-shot run, with the graceful stop already pending)
					switch kindOf(ev.Key) {
					case "data", "validate", "sent", "persist":
						out = append(out, pick(ev.Menu, "crash")...)
					}
				}
			}
			return out
		}, c16Check,
		"a graceful or an immediate stop at every externally visible action of the sender (partials request, scan, cache write, data / recovery / poll request, sent-log write, done-marking, delete; in one scenario also every opening of a source file, i.e. during hashing), alone and after one request failure (request refused, receiver error on a part, a corrupted part -> validation failure, receiver unreachable for 60 s so that the pipeline's channels fill up); oracle: the sender exits (immediate: within 60 s, graceful: within the 20 min horizon, virtual time), a graceful stop leaves everything delivered and released, nothing confirmed is missing from the persisted queue cache; the one-shot run (stop right after start) completes - also the one-shot run that follows a run that died (crash at a data / poll / sent-log / cache-write action), with one request failure")
}

// ---------------------------------------------------------------- C07: sender crash

func c07Check(r *rig) (string, string, string) {
	tr := func() string { return r.traceString() }
	if v := r.c01Final(); v != "" {
		return v + "\n" + tr(), "", ""
	}
	if g := r.c03Goal(); g != "" {
		return "C07: after the sender restart(s) the end state differs from that of an uninterrupted run: " + g + "\n" + tr(), "", ""
	}
	if v := r.c04Order(); v != "" {
		return "C07 (the ordering chain continues across the restart): " + v + "\n" + tr(), "", ""
	}
	if v := r.c07Chain(); v != "" {
		return "C07 (the ordering chain continues across the restart): " + v + "\n" + tr(), r.chainClass, ""
	}
	// per incarnation: nothing the receiver listed as held, and nothing already delivered, is transmitted
	for g := 1; g <= r.gen; g++ {
		listed := map[string][][2]int64{}
		for _, w := range r.wire {
			if w.Kind == "partials" && w.Gen == g && w.Err == "" {
				listed = w.Listed
			}
		}
		failed := map[string]bool{}
		for _, w := range r.wire {
			if w.Kind == "validate" && w.Gen == g {
				for n, c := range w.Answers {
					if c == 1 {
						failed[n] = true
					}
				}
			}
			if w.Kind != "data" || w.Gen != g {
				continue
			}
			for _, p := range w.Parts {
				if failed[p.Name] {
					continue
				}
				for _, rg := range listed[p.Name+" "+p.Hash] {
					if p.Beg < rg[1] && rg[0] < p.End {
						return fmt.Sprintf("C07: after the restart the receiver listed [%d,%d) of %s as held, yet the sender transmitted %s\n%s", rg[0], rg[1], p.Name, p, tr()), "", ""
					}
				}
				// (unless the receiver itself lists a partial of it: a part of the dead incarnation's
				// last request may have landed after the file was delivered, and the sender is
				// entitled to believe the listing)
				if _, isListed := listed[p.Name+" "+p.Hash]; !isListed && g-1 < len(r.finalAtCrash) && r.finalAtCrash[g-1][p.Name] == p.Hash {
					return fmt.Sprintf("C07: %s was already delivered when the sender crashed, yet the restarted sender transmitted %s\n%s", p.Name, p, tr()), "", ""
				}
			}
		}
	}
	return "", "", fmt.Sprintf("restarts=%d", r.gen)
}

func TestC07Env(t *testing.T) {
	d := 2
	if vh.Thorough() {
		d = 3
	}
	scs := []envScenario{
		esc("3 files, 2 threads, one-shot", confTwoThreads(), armC02),
		esc("2 files, 1 thread, daemon", asDaemon(confOneThread()), armC02),
		esc("4 files of one group, 2 threads, one-shot", confOneGroup(), armC02),
		esc("3 files, 2 threads, one-shot, the receiver lists the parts of a partial file in descending order", reverseParts(confTwoThreads()), armC02),
		esc("1 file in 10-byte chunks, payloads of 2 chunks, 2 threads, one-shot", confChunked(), armC02),
	}
	runEnvProperty(t, "C07", "sender crash at every sender action (E-ENV)", scs, d,
		func(ev vh.EnvEvent, plan []vh.Deviation) []string {
			out := pick(ev.Menu, "crash")
			faults := 0
			for _, dv := range plan {
				if dv.Do != "crash" {
					faults++
				}
			}
			if faults == 0 && kindOf(ev.Key) == "data" {
				out = append(out, pick(ev.Menu, "gkfail:", "cut:", "lost", "refuse")...)
			}
			return out
		}, c07Check,
		"the sender dies right before each of its externally visible actions (partials request, scan, queue-cache write, data / recovery / poll request, sent-log write, done-marking, delete): every single crash point, every pair of crash points (second crash during or after recovery), and every crash after one request failure that leaves the receiver with parts from a cut or partly refused payload; the restarted sender runs the real recover(); oracle: end state of the uninterrupted run, no byte range the receiver listed as held and no part of an already delivered file is transmitted, nothing released unconfirmed (C02's oracle armed)")
}

func armC02(r *rig) {
	r.onRemove = c02Release("remove")
	r.onDone = c02Release("mark done")
}

// ---------------------------------------------------------------- C02: sender half

func c02Check(r *rig) (string, string, string) {
	if r.viol != "" {
		return r.viol, r.class, ""
	}
	return "", "", fmt.Sprintf("finished=%v", r.finished)
}

func confKeep() rigConf {
	c := confOneThread()
	c.Delete = false
	return c
}

var c02Big bool // set by the three-chunk scenario's setup (selects its reduced alphabet)

func c02BigConf() rigConf {
	c := asDaemon(confOneThread())
	c.Files = []rigFile{
		{Name: "g/a", Data: strings.Repeat("A", 20), Age: 300},
		{Name: "g/b", Data: strings.Repeat("B", 70), Age: 200},
	}
	return c
}

func TestC02Env(t *testing.T) {
	d := 2
	withFiles := func(c rigConf, ops ...string) func(r *rig) {
		return func(r *rig) { armC02(r); c02Big = false; r.fileOps = ops }
	}
	scs := []envScenario{
		esc("2 files, 1 thread, delete, one-shot", confOneThread(), withFiles(confOneThread(), "rewrite", "append")),
		esc("2 files, 1 thread, keep, daemon", asDaemon(confKeep()), withFiles(confKeep(), "rewrite")),
		esc("2 files, 1 thread, delete, daemon", asDaemon(confOneThread()), withFiles(confOneThread(), "rewrite", "append")),
		esc("2 files, 1 thread, delete, daemon, min-age 60 s (a changed file is not picked up by the very next scan)", minAge(asDaemon(confOneThread()), 60*time.Second), withFiles(confOneThread(), "rewrite", "append")),
		{"2 files, 1 thread, delete with delete-delay 10 min, daemon (confirmed files stay on disk until a later scan removes them; one deviation)", deleteDelay(asDaemon(confOneThread()), 10*time.Minute), withFiles(confOneThread(), "rewrite", "append"), 1},
		esc("2 files, delete, receiver holds an older version known only from its log", confOneThread(), func(r *rig) {
			armC02(r)
			c02Big = false
			r.fileOps = []string{"rewrite"}
			r.preload = []preloaded{{Name: "g/a", Data: "older version of a", AgeH: 30}}
		}),
		{"2 files, delete, daemon, receiver holds older versions of both; the three-chunk file is rewritten while in flight and the receiver is unreachable for a minute (a scan runs while the old version is half sent)", c02BigConf(), func(r *rig) {
			armC02(r)
			c02Big = true
			r.fileOps = []string{"rewrite"}
			r.preload = []preloaded{{Name: "g/a", Data: "older version of a", AgeH: 30}, {Name: "g/b", Data: "older version of b", AgeH: 29}}
		}, 2},
	}
	for i := range scs {
		scs[i].conf.Horizon = 10 * time.Minute
		if scs[i].conf.DeleteDelay > 0 {
			scs[i].conf.Horizon = 25 * time.Minute
		}
	}
	runEnvProperty(t, "C02", "release of source files (E-ENV)", scs, d,
		func(ev vh.EnvEvent, plan []vh.Deviation) []string {
			if c02Big {
				// reduced alphabet for the three-chunk scenario: the file changes at a data request,
				// a later data request finds the receiver unreachable for 60 s
				if kindOf(ev.Key) != "data" {
					return nil
				}
				if len(plan) == 0 {
					return pick(ev.Menu, "file:rewrite:g/b")
				}
				return pick(ev.Menu, "down:60")
			}
			var out []string
			switch kindOf(ev.Key) {
			case "validate":
				// (an outage that begins at a poll: the polls fail until a later scan has seen a changed
				// file; two lengths, so that either the poll or the new version's data request comes first)
				out = pick(ev.Menu, "refuse", "lost", "crash", "recv-restart", "down:")
			case "data":
				// (gkfail: the receiver fails on part k and answers 206 with the number of parts it took)
				out = pick(ev.Menu, "corrupt:", "gkfail:", "lost", "crash", "recv-restart")
			case "done", "remove", "persist", "sent":
				out = pick(ev.Menu, "crash")
			case "sync":
				// only as a follow-up of a file change: a slow comparison lets a scan run in between
				for _, dv := range plan {
					if strings.HasPrefix(dv.Do, "file:") {
						return pick(ev.Menu, "delay:")
					}
				}
				return nil
			}
			if kindOf(ev.Key) == "remove" {
				// a writer that strikes between the sender's last comparison and the unlink
				// cannot be fended off without file locking: not part of the alphabet
				return out
			}
			return append(out, pick(ev.Menu, "file:")...)
		}, c02Check,
		"at every Store.Remove and Cache.Done of the sender: the receiver durably holds a validated copy with the hash of the bytes being released, and a positive poll answer asked after the last acknowledgement precedes the release; plans with <= 2 deviations over: poll request refused / answer lost / receiver unreachable for 35 or 60 s from a poll on, a corrupted part (validation failure), a part the receiver fails on (206 answer), lost data answer, sender crash at data / poll / done / delete / cache-write / sent-log actions, receiver restart, the source file rewritten (same size) or appended to at any sender action except at the very instant of the unlink, followed by a slow (45 s) comparison of a file with its cache entry; delete on and off, one-shot and daemon, with and without a minimum age of 60 s, with a delete-delay of 10 min; a receiver that delivered an older version of the same name in an earlier run")
}

// c16Drained: everything the scans found was transmitted completely and polled to a verdict;
// what was confirmed is delivered and released. (A file whose verdict is "failed" is not sent
// again by a sender that is stopping - client.finish says so - and stays not-done in the
// cache for the next start.)
func (r *rig) c16Drained() string {
	final := r.finalFiles()
	src := r.sourceFiles()
	cache := r.cacheEntriesLive()
	for name, h := range r.expect {
		verdict, nones := -1, 0
		for _, w := range r.wire {
			if w.Kind == "validate" && w.Err == "" {
				if c, ok := w.Answers[name]; ok {
					verdict = c
					if c == 0 {
						nones++
					}
				}
			}
		}
		switch verdict {
		case -1:
			return fmt.Sprintf("%s was never polled to a verdict", name)
		case 0:
			if nones < r.conf.PollAttempts {
				return fmt.Sprintf("%s was polled %d time(s) without a verdict (poll-attempts is %d)", name, nones, r.conf.PollAttempts)
			}
		case 2, 3:
			if final[name] != h && verdict == 2 {
				return fmt.Sprintf("%s was confirmed but is not in the final directory", name)
			}
			if r.conf.Delete {
				if _, there := src[name]; there {
					return fmt.Sprintf("%s was confirmed but is still in the outgoing directory (deletion is configured)", name)
				}
			} else if done, ok := cache[name]; !ok || !done {
				return fmt.Sprintf("%s was confirmed but is not marked done in the queue cache", name)
			}
		}
	}
	return ""
}

// ---------------------------------------------------------------- C17: eligibility and histories of changes

// every (name, hash) whose size and time did not change after it was queued is transmitted
// once: bytes acknowledged per version <= size x (1 + number of times the harness touched
// the file without changing its content)
func (r *rig) c17Once(touches map[string]int) string {
	r.mu.Lock()
	defer r.mu.Unlock()
	sent := map[string]int64{}
	for _, w := range r.wire {
		if w.Kind != "data" || w.Err != "" {
			continue
		}
		for _, p := range w.Parts {
			sent[p.Name+" "+p.Hash] += p.End - p.Beg
		}
	}
	for k, n := range sent {
		name := strings.SplitN(k, " ", 2)[0]
		var size int64 = -1
		for _, f := range r.conf.Files {
			if f.Name == name {
				size = int64(len(f.Data))
			}
		}
		if fi, ok := r.sizes[k]; ok {
			size = fi
		}
		if size >= 0 && n > size*int64(1+touches[name]) {
			return fmt.Sprintf("C17: %d bytes of version %s were transmitted, its size is %d and nothing forced a retransmission", n, k, size)
		}
	}
	return ""
}

func c17Check(ineligible []string) func(r *rig) (string, string, string) {
	return func(r *rig) (string, string, string) {
		tr := func() string { return r.traceString() }
		if v := r.c01Final(); v != "" {
			return "C17 (what is delivered is one complete version): " + v + "\n" + tr(), "", ""
		}
		bad := map[string]bool{}
		for _, n := range ineligible {
			bad[n] = true
		}
		emptyHash := vh.MD5(nil)
		for _, w := range r.wire {
			for _, p := range w.Parts {
				if bad[p.Name] {
					return fmt.Sprintf("C17: ineligible file %s was transmitted / polled\n%s", p.Name, tr()), "", ""
				}
				if p.Hash == emptyHash || (w.Kind == "data" && p.Beg == p.End) {
					return fmt.Sprintf("C17: %s was queued and %s as an EMPTY file (hash of nothing): an empty file is not eligible\n%s", p.Name, map[bool]string{true: "transmitted", false: "polled"}[w.Kind == "data"], tr()), "", ""
				}
			}
		}
		r.mu.Lock()
		queued := append([]queuedFile{}, r.queued...)
		r.mu.Unlock()
		for _, q := range queued {
			if bad[q.Name] {
				return fmt.Sprintf("C17: ineligible file %s was queued for sending (entered the queue cache)\n%s", q.Name, tr()), "", ""
			}
			if q.Size == 0 || q.Hash == emptyHash {
				return fmt.Sprintf("C17: %s was queued for sending (entered the queue cache) as an EMPTY file (size %d, hash %s): an empty file is not eligible\n%s", q.Name, q.Size, q.Hash, tr()), "", ""
			}
		}
		for _, e := range r.events {
			if e.Kind == "remove" || e.Kind == "done" {
				n := e.Key[strings.Index(e.Key, ":")+1 : strings.LastIndex(e.Key, "#")]
				if bad[n] {
					return fmt.Sprintf("C17: ineligible file %s was released (%s)\n%s", n, e.Kind, tr()), "", ""
				}
			}
		}
		src := r.sourceFiles()
		for _, n := range ineligible {
			if _, ok := src[n]; !ok && !r.changed[n] {
				return fmt.Sprintf("C17: ineligible file %s disappeared from the outgoing directory\n%s", n, tr()), "", ""
			}
		}
		touches := map[string]int{}
		// every change the harness made to a file may land between the scan's stat and the hashing:
		// the version hashed then carries an older time stamp and is legitimately sent once more
		for _, n := range r.notes {
			if i := strings.Index(n, "file change "); i >= 0 {
				f := strings.Fields(n[i+len("file change "):])
				if len(f) == 2 {
					touches[f[1]]++
				}
			}
		}
		for _, w := range r.wire { // a failed validation forces the whole file to be sent again
			if w.Kind == "validate" {
				for n, c := range w.Answers {
					if c == 1 {
						touches[n]++
					}
				}
			}
		}
		if v := r.c17Once(touches); v != "" {
			return v + "\n" + tr(), "", ""
		}
		if g := r.c03Goal(); g != "" {
			return fmt.Sprintf("C17: %.0f s after the last change the latest version of every eligible file should be delivered and released: %s\n%s", (r.now() - r.lastDev).Seconds(), g, tr()+r.treeDump()), "", ""
		}
		return "", "", fmt.Sprintf("changes=%d", len(r.changed))
	}
}

var c17Unordered bool // set per run by the scenario's setup

func TestC17Env(t *testing.T) {
	d := 2
	if vh.Thorough() {
		d = 3
	}
	conf := asDaemon(confOneThread())
	conf.Horizon = 30 * time.Minute
	conf.MinAge = 60 * time.Second
	conf.Files = append(conf.Files,
		rigFile{Name: "g/.hidden", Data: "hidden", Age: 300},
		rigFile{Name: "g/x.lck", Data: "locked", Age: 300},
		rigFile{Name: "g/young", Data: "too young", Age: 10},
	)
	inel := []string{"g/.hidden", "g/x.lck"}
	setup := func(r *rig) {
		c17Unordered = !r.conf.Ordered
		r.fileOps = []string{"rewrite", "append", "touch", "restore", "truncate"}
		delete(r.expect, "g/.hidden")
		delete(r.expect, "g/x.lck")
	}
	scs := []envScenario{esc("2 eligible + 3 other files, 1 thread, delete, daemon", conf, setup)}
	keep := conf
	keep.Delete = false
	scs = append(scs, envScenario{"2 eligible + 3 other files, 1 thread, keep, daemon (one deviation less)", keep, setup, d - 1})
	unordered := conf
	unordered.Ordered = false
	scs = append(scs, envScenario{"2 eligible + 3 other files, 1 thread, delete, daemon, no ordering, a file may be emptied (one deviation less)", unordered, setup, d - 1})
	runEnvProperty(t, "C17", "files changing between and during scans, hashing and transmission (E-ENV)", scs, d,
		func(ev vh.EnvEvent, plan []vh.Deviation) []string {
			if k := kindOf(ev.Key); k == "remove" || k == "sync" {
				return nil
			}
			var out []string
			if kindOf(ev.Key) == "data" {
				// a change in flight matters most when the transmission then fails
				out = append(out, pick(ev.Menu, "refuse", "corrupt:")...)
			}
			for _, m := range pick(ev.Menu, "file:") {
				if strings.Contains(m, ":restore:") && !strings.HasSuffix(m, ":g/a") {
					continue // an older copy put in place: one file is enough
				}
				if strings.Contains(m, ":truncate:") {
					// emptied: only in the scenario without ordering (an emptied file is never delivered,
					// and in an ordered group its successors would wait for it for good - outside the property)
					if c17Unordered && strings.HasSuffix(m, ":g/a") {
						out = append(out, m)
					}
					continue
				}
				if strings.HasSuffix(m, ":g/a") || strings.HasSuffix(m, ":g/b") || (strings.HasSuffix(m, ":g/young") && strings.Contains(m, "append")) {
					out = append(out, m)
				}
			}
			return out
		}, c17Check(inel),
		fmt.Sprintf("all plans with <= %d deviations: file changes (rewritten with the same size, appended to, touched, replaced by a same-size copy with an OLDER modification time, emptied; created anew under its name when it was already delivered and deleted) applied to an eligible file at any externally visible action of the sender (scan, cache write, data / poll request, sent-log write, done-marking), and request failures (data request refused, a part corrupted in transit); daemon with scan delay 30 s, min-age 60 s, hidden file, lock file and a file that becomes old enough during the run present; oracle: ineligible files are never transmitted, polled, released or removed; what is delivered is one complete version; an unchanged version is transmitted once; 30 min after the last change the latest version of every eligible file is delivered and released", d))
}

// TestC17Elig: which files are queued, for every combination of the eligibility options, on a
// tree that holds one file of every kind. Each combination is one real one-shot run.
func TestC17Elig(t *testing.T) {
	envT = t
	rep := vh.NewReport("C17", "eligibility: option combinations x file kinds (exhaustive enumeration, end-to-end)")
	defer rep.Write()
	type kind struct {
		name   string
		data   string
		age    int
		hidden bool // the file or a directory above it is hidden
	}
	kinds := []kind{
		{"f", "plain file", 300, false},
		{"d/f", "file in a directory", 300, false},
		{"d/e/f2", "nested file", 300, false},
		{".h", "hidden file", 300, true},
		{".hd/f", "file in a hidden directory", 300, true},
		{"x.lck", "lock file", 300, false},
		{"d/.disabled", "disable marker below the root", 300, true},
		{"z", "", 300, false}, // empty
		{"y", "young file", 100, false},
	}
	n := 0
	for mask := 0; mask < 64; mask++ {
		n++
		if !vh.Mine(n) {
			continue
		}
		hidden, incl, ign, tagp, young, disabled := mask&1 != 0, mask&2 != 0, mask&4 != 0, mask&8 != 0, mask&16 != 0, mask&32 != 0
		conf := confOneThread()
		conf.Delete = true
		conf.Files = nil
		for _, k := range kinds {
			conf.Files = append(conf.Files, rigFile{Name: k.name, Data: k.data, Age: k.age})
		}
		conf.IncludeHidden = hidden
		if incl {
			conf.Include = []string{`^d/`, `^\.`}
		}
		if ign {
			conf.Ignore = []string{`f$`}
		}
		if tagp {
			conf.NonHTTPTag = `^d/e/`
		}
		if young {
			conf.MinAge = 150 * time.Second
		}
		if disabled {
			conf.Files = append(conf.Files, rigFile{Name: ".disabled", Data: "", Age: 300})
		}
		conf.Horizon = 10 * time.Minute
		want := map[string]bool{}
		for _, k := range kinds {
			ok := k.data != ""
			ok = ok && (!young || k.age >= 150)
			ok = ok && (hidden || !k.hidden)
			ok = ok && !strings.HasSuffix(k.name, ".lck") && !strings.HasSuffix(k.name, ".disabled")
			ok = ok && !(ign && strings.HasSuffix(k.name, "f"))
			ok = ok && !(tagp && strings.HasPrefix(k.name, "d/e/"))
			ok = ok && (!incl || strings.HasPrefix(k.name, "d/") || strings.HasPrefix(k.name, "."))
			ok = ok && !disabled
			want[k.name] = ok
		}
		desc := fmt.Sprintf("include-hidden=%v include=%v ignore=%v non-http-tag=%v min-age=%v disabled=%v", hidden, conf.Include, conf.Ignore, conf.NonHTTPTag, conf.MinAge, disabled)
		res := envRun(conf, nil, func(r *rig) {
			for k := range r.expect {
				if !want[k] {
					delete(r.expect, k)
				}
			}
		}, nil, func(r *rig) (string, string, string) {
			got := map[string]bool{}
			for _, w := range r.wire {
				if w.Kind == "data" {
					for _, p := range w.Parts {
						got[p.Name] = true
					}
				}
			}
			src := r.sourceFiles()
			for _, k := range kinds {
				if got[k.name] != want[k.name] {
					return fmt.Sprintf("C17: with %s the file %s is eligible=%v but transmitted=%v", desc, k.name, want[k.name], got[k.name]), "", ""
				}
				if _, there := src[k.name]; !there && !want[k.name] {
					return fmt.Sprintf("C17: with %s the ineligible file %s was deleted", desc, k.name), "", ""
				}
			}
			if g := r.c03Goal(); g != "" {
				return fmt.Sprintf("C17: with %s: %s\n%s", desc, g, r.traceString()), "", ""
			}
			return "", "", fmt.Sprintf("eligible=%d", len(r.expect))
		})
		rep.Executions++
		rep.States++
		rep.Transitions += int64(len(res.Events))
		rep.Nontrivial++
		rep.Sample(map[string]interface{}{"mask": mask, "options": desc}, 4)
		rep.Outcome(res.Outcome)
		if res.Viol != "" {
			rep.Violate(res.Class, res.Viol, map[string]interface{}{"mask": mask})
		}
	}
	rep.Bound = "all 64 combinations of {include-hidden, include patterns, an ignore pattern, a tag with a method other than http, min-age on either side of a file's age, disable marker at the root} on a tree with a plain file, files in (nested) directories, a hidden file, a file in a hidden directory, a lock file, a disable marker below the root, an empty file and a young file; each combination is one real one-shot run; reference = the predicate of the statement"
}

// ---------------------------------------------------------------- C13 over real HTTP

// TestC13HTTP: the wire format over a real HTTP request (http.Client.Transmit -> net/http ->
// Server.routeData -> payload decoder -> gate keeper), for every compression level, names
// with unicode and spaces, part lengths around the block and copy-buffer sizes, payloads
// that hold several files and files that span several payloads.
func TestC13HTTP(t *testing.T) {
	envT = t
	rep := vh.NewReport("C13", "round trip over a real HTTP request (exhaustive enumeration: compression level x payload size)")
	defer rep.Write()
	levels := []int{0, 1, 6, 9}
	if vh.Thorough() {
		levels = []int{0, 1, 2, 3, 4, 5, 6, 7, 8, 9}
	}
	gen := func(n int, seed byte) string {
		b := make([]byte, n)
		for i := range b {
			b[i] = byte('!' + (int(seed)+i*7+i/97)%90)
		}
		return string(b)
	}
	n := 0
	for _, level := range levels {
		for _, bin0 := range []int{64, 4096, 20000, -64, -4096, -20000} {
			n++
			if !vh.Mine(n) {
				continue
			}
			bin, slow := bin0, false
			if bin0 < 0 {
				// the same again with source files that are slow to read: the two sender threads
				// are then in the middle of encoding their payloads at the same time
				bin, slow = -bin0, true
			}
			conf := confTwoThreads()
			conf.SlowRead = slow
			conf.Compression = level
			conf.BinSize = bin
			conf.Horizon = 30 * time.Minute
			conf.Files = []rigFile{
				{Name: "g/ü ñ.dat", Data: gen(1, 1), Age: 900},
				{Name: "g/a b", Data: gen(2, 2), Age: 800},
				{Name: "g/seven", Data: gen(7, 3), Age: 700},
				{Name: "h/日本.bin", Data: gen(8192, 4), Age: 600},
				{Name: "h/block+1", Data: gen(8193, 5), Age: 500},
				{Name: "k/d/e/nested name", Data: gen(300, 6), Age: 400},
			}
			want := map[string]string{}
			for _, f := range conf.Files {
				want[f.Name] = f.Data
			}
			res := envRun(conf, nil, func(r *rig) { r.wantBytes = want }, nil, func(r *rig) (string, string, string) {
				if v := r.c01Final(); v != "" {
					return v, "", ""
				}
				if r.byteViol != "" {
					return fmt.Sprintf("compression %d, payload size %d: %s\n%s", level, bin, r.byteViol, r.traceString()), "", ""
				}
				for _, w := range r.wire { // nothing is injected here: a correctly encoded payload must be accepted
					if w.Kind == "data" && w.Err != "" {
						return fmt.Sprintf("compression %d, payload size %d: a data request failed although nothing was injected: %s\n%s", level, bin, w.Err, r.traceString()), "", ""
					}
				}
				if g := r.c03Goal(); g != "" {
					return fmt.Sprintf("compression %d, payload size %d: %s\n%s", level, bin, g, r.traceString()), "", ""
				}
				// every part the sender put into a data request was handed to the gate keeper with the same name and range
				nparts := 0
				for _, w := range r.wire {
					if w.Kind == "data" && w.Err == "" {
						if sig(w.Parts) != sig(w.Received) {
							return fmt.Sprintf("compression %d, payload size %d: the request carried %s, the gate keeper received %s", level, bin, sig(w.Parts), sig(w.Received)), "", ""
						}
						nparts += len(w.Parts)
					}
				}
				return "", "", fmt.Sprintf("parts=%d", nparts)
			})
			rep.Executions++
			rep.States++
			rep.Transitions += int64(len(res.Events))
			rep.Nontrivial++
			rep.Outcome(res.Outcome)
			rep.Sample(map[string]int{"compression": level, "payload_size": bin0}, 4)
			if res.Viol != "" {
				rep.Violate(res.Class, res.Viol, map[string]int{"compression": level, "payload_size": bin0})
			}
		}
	}
	rep.Bound = fmt.Sprintf("compression levels %v x payload sizes {64, 4096, 20000} bytes x source files read at once / slowly in pieces of 512 bytes (the two sender threads then encode their payloads at the same time); six files (1, 2, 7, 300, 8192, 8193 bytes; names with unicode, spaces and nested directories) sent by the real sender through real HTTP requests to the real receiver; every part of every request must reach the gate keeper under its name and range, and every file must arrive byte-identical", levels)
}

// ---------------------------------------------------------------- C04 / C01 end to end

func TestC04Env(t *testing.T) {
	d := 2
	cron := confOneGroup()
	cron.Rerun = true
	dm := asDaemon(confOneGroup())
	// a small first file and a successor that is sent in several chunks on two connections
	big := asDaemon(confOneGroup())
	big.Files = []rigFile{
		{Name: "g/a", Data: strings.Repeat("A", 10), Age: 400},
		{Name: "g/b", Data: strings.Repeat("B", 70), Age: 300},
		{Name: "g/c", Data: strings.Repeat("C", 14), Age: 200},
	}
	scs := []envScenario{esc("4 files of one group, 2 threads, one-shot invoked every minute", cron, nil), esc("4 files of one group, 2 threads, daemon", dm, nil),
		esc("3 files of one group, the second one in several chunks, 2 threads, daemon", big, nil)}
	runEnvProperty(t, "C04", "order of delivery end to end under faults and restarts (E-ENV)", scs, d,
		func(ev vh.EnvEvent, plan []vh.Deviation) []string { return faultAlts(ev, true) },
		func(r *rig) (string, string, string) {
			if v := r.c04Order(); v != "" {
				return v + "\n" + r.traceString(), "", ""
			}
			if v := r.c07Chain(); v != "" {
				return "C04 (announced predecessors): " + v + "\n" + r.traceString(), "", ""
			}
			if g := r.c03Goal(); g != "" {
				return "C04/C03: " + g + "\n" + r.traceString(), "", ""
			}
			return "", "", fmt.Sprintf("log=%d", len(r.recvLogRecords()))
		},
		"four files of one ordered (fifo) group sent on two threads (and three files whose second one is sent in several chunks); all plans with <= 2 deviations over request failures (refused, answer lost, receiver error / cut at part k, corrupted part), receiver restart and sender crash at data and poll requests; oracle: receive-log order = age order, every announced predecessor is the immediately preceding file unless that one is known to be delivered, everything delivered in the end")
}

func TestC01Env(t *testing.T) {
	d := 2
	conf := asDaemon(confTwoThreads())
	conf.Horizon = 30 * time.Minute
	setup := func(r *rig) { r.fileOps = []string{"rewrite", "append"} }
	scs := []envScenario{esc("3 files, 2 threads, daemon, files changing", conf, setup)}
	runEnvProperty(t, "C01", "integrity end to end: corruption in transit, files changing while queued or streamed, restarts (E-ENV)", scs, d,
		func(ev vh.EnvEvent, plan []vh.Deviation) []string {
			var out []string
			switch kindOf(ev.Key) {
			case "data":
				out = append(pick(ev.Menu, "corrupt:", "cut:", "crash", "recv-restart"), pick(ev.Menu, "file:")...)
			case "sent", "persist":
				out = pick(ev.Menu, "file:")
			case "validate":
				out = pick(ev.Menu, "crash", "recv-restart")
			}
			return out
		},
		func(r *rig) (string, string, string) {
			if v := r.c01Final(); v != "" {
				return v + "\n" + r.traceString(), "", ""
			}
			// the hash in the receive log is the hash of what was delivered
			final := r.finalFiles()
			last := map[string]string{}
			for _, rec := range r.recvLogRecords() {
				kv := strings.SplitN(rec, "|", 2)
				last[kv[0]] = kv[1]
			}
			for name, h := range final {
				if last[name] != h {
					return fmt.Sprintf("C01: %s was delivered with md5 %s, the latest receive-log record for it says %q\n%s", name, h, last[name], r.traceString()), "", ""
				}
			}
			return "", "", fmt.Sprintf("delivered=%d", len(final))
		},
		"three files on two threads, daemon; all plans with <= 2 deviations over: a byte of part k flipped in transit, connection cut at part k, a source file rewritten (same size) or appended to at a data request / sent-log write / cache write (i.e. while queued or being streamed), sender crash, receiver restart; oracle: every file in the final directory is a version its source file had, with the hash of its latest receive-log record")
}
