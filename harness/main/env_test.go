//go:build verif

package main

import (
	"fmt"
	"strings"
	"testing"
	"testing/synctest"
	"time"

	"github.com/arm-doe/sts/internal/verif/vh"
)

var envT *testing.T

// envRun executes one plan on a fresh rig in a fresh bubble; check evaluates the property.
func envRun(conf rigConf, plan []vh.Deviation, setup func(r *rig), goal func(r *rig) bool, check func(r *rig) (viol, class, outcome string)) (res vh.EnvRun) {
	synctest.Test(envT, func(t *testing.T) {
		var p Plan
		for _, d := range plan {
			p = append(p, Deviation{At: d.At, Do: d.Do})
		}
		r := newRig(conf, p)
		if setup != nil {
			setup(r)
		}
		r.run(goal)
		res.Viol, res.Class, res.Outcome = check(r)
		if res.Viol == "" && r.viol != "" {
			res.Viol, res.Class = r.viol, r.class
		}
		for _, e := range r.events {
			res.Events = append(res.Events, vh.EnvEvent{Key: e.Key, Menu: e.Menu})
		}
		for _, d := range plan {
			if !r.used[d.At] {
				res.Unused = append(res.Unused, d.At)
			}
		}
		r.close()
	})
	return
}

func pick(menu []string, prefixes ...string) []string {
	var out []string
	for _, m := range menu {
		for _, p := range prefixes {
			if m == p || (strings.HasSuffix(p, ":") && strings.HasPrefix(m, p)) {
				out = append(out, m)
			}
		}
	}
	return out
}

func kindOf(key string) string { return key[:strings.Index(key, ":")] }

// ---------------------------------------------------------------- scenarios

func confTwoThreads() rigConf {
	return rigConf{
		Name: "src",
		Files: []rigFile{
			{Name: "g/a", Data: strings.Repeat("A", 40), Age: 300},
			{Name: "g/b", Data: strings.Repeat("B", 16), Age: 200},
			{Name: "h/c", Data: strings.Repeat("C", 24), Age: 100},
		},
		Threads: 2, BinSize: 32, Ordered: true, Delete: true, OneShot: true,
		ScanDelay: 30 * time.Second, PollDelay: 2 * time.Second, PollInterval: 5 * time.Second, PollAttempts: 3, PollMaxCount: 2,
		Horizon: 6 * time.Hour,
	}
}

func confOneThread() rigConf {
	c := confTwoThreads()
	c.Threads = 1
	c.Files = []rigFile{
		{Name: "g/a", Data: strings.Repeat("A", 20), Age: 300},
		{Name: "g/b", Data: strings.Repeat("B", 30), Age: 200},
	}
	return c
}

// asDaemon: the sender runs in a loop (as with --loop) until it is stopped.
func asDaemon(c rigConf) rigConf {
	c.OneShot = false
	return c
}

// goalDelivered: everything is delivered, confirmed and released.
func goalDelivered(r *rig) bool { return r.c03Goal() == "" }

// ---------------------------------------------------------------- C08

func TestC08Env(t *testing.T) {
	envT = t
	rep := vh.NewReport("C08", "failed requests on the wire (E-ENV)")
	defer rep.Write()
	maxDev := 2
	for _, sc := range []struct {
		name string
		conf rigConf
	}{{"3 files, 2 threads", confTwoThreads()}, {"2 files, 1 thread", confOneThread()}, {"2 files, 1 thread, daemon", asDaemon(confOneThread())}} {
		sc := sc
		e := &vh.Env{Rep: rep, Scenario: sc.name, MaxDev: maxDev,
			Run: func(plan []vh.Deviation) vh.EnvRun {
				return envRun(sc.conf, plan, nil, goalDelivered, func(r *rig) (string, string, string) {
					if v := r.c08Wire(); v != "" {
						cl := ""
						if strings.Contains(v, "the sender sent") {
							cl = c08Class(r)
						}
						return v + "\n" + r.traceString(), cl, ""
					}
					if !r.finished {
						return "", "", "not finished"
					}
					nfail := 0
					for _, w := range r.wire {
						if w.Err != "" {
							nfail++
						}
					}
					return "", "", fmt.Sprintf("finished, %d failed requests", nfail)
				})
			},
			Alternatives: func(ev vh.EnvEvent, plan []vh.Deviation) []string {
				switch kindOf(ev.Key) {
				case "data":
					return pick(ev.Menu, "refuse", "lost", "gkfail:", "cut:", "stop-n")
				case "recovery":
					return pick(ev.Menu, "refuse", "lost", "stop-n")
				}
				return nil
			},
		}
		e.Explore()
	}
	rep.Bound = fmt.Sprintf("all plans with <= %d deviations over: every data request (refused; answer lost after processing; receiver error on part k -> 206 with count; connection cut at part k) and every data-recovery request (refused; answer lost), an immediate stop arriving at any of these requests, including the requests that exist only because of an earlier deviation; scenarios: 3 files / 2 sender threads / payload 32 B and 2 files / 1 thread as one-shot runs to completion, 2 files / 1 thread as a daemon (where a stop request takes effect)", maxDev)
}

// c08Class: the retry repeated parts although the 206 answer carried a count.
func c08Class(r *rig) string {
	for _, w := range r.wire {
		if w.Kind == "data" && w.Err != "" && w.N > 0 {
			return "count-of-206-ignored"
		}
	}
	return ""
}
