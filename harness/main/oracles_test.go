//go:build verif

package main

import (
	"fmt"
	"os"
	"path/filepath"
	"sort"
	"strings"
	"time"

	"github.com/arm-doe/sts"
	"github.com/arm-doe/sts/internal/verif/vh"
)

// Oracles evaluated on a run of the rig. Each returns "" or a violation text.

// ---- bookkeeping derived from the wire trace

type ack struct {
	beg, end int64
	at       time.Duration
}

// ackedRanges: byte ranges of (name, hash) the receiver acknowledged to the sender: parts of
// data requests answered OK, the leading n parts reported by a 206 answer or by a
// data-recovery answer.
func (r *rig) ackedRanges() map[string][]ack {
	out := map[string][]ack{}
	add := func(p wirePart, at time.Duration) {
		k := p.Name + " " + p.Hash
		out[k] = append(out[k], ack{p.Beg, p.End, at})
	}
	for _, w := range r.wire {
		switch w.Kind {
		case "data":
			n := w.N
			if w.Err == "" {
				n = len(w.Parts)
			}
			for i := 0; i < n && i < len(w.Parts); i++ {
				add(w.Parts[i], w.EndAt)
			}
		case "recovery":
			if w.Err == "" {
				for i := 0; i < w.N && i < len(w.Parts); i++ {
					add(w.Parts[i], w.EndAt)
				}
			}
		}
	}
	return out
}

func coveredBy(acks []ack, size int64, until time.Duration) (bool, time.Duration) {
	var rs [][2]int64
	var last time.Duration
	for _, a := range acks {
		if a.at <= until {
			rs = append(rs, [2]int64{a.beg, a.end})
			if a.at > last {
				last = a.at
			}
		}
	}
	sort.Slice(rs, func(i, j int) bool { return rs[i][0] < rs[j][0] })
	pos := int64(0)
	for _, x := range rs {
		if x[0] > pos {
			break
		}
		if x[1] > pos {
			pos = x[1]
		}
	}
	return pos >= size, last
}

// ---- C02: release only after validated receipt

func (r *rig) receiverHolds(name, hash string) bool {
	if vh.FileMD5(filepath.Join(r.finalDir(), name)) == hash {
		return true
	}
	if vh.FileMD5(filepath.Join(r.stageDir(), name+".wait")) == hash {
		return true
	}
	for _, rec := range r.recvLogRecords() {
		if rec == name+"|"+hash {
			return true
		}
	}
	return false
}

// c02Release is called when the sender is about to remove / mark done the file name.
func c02Release(what string) func(r *rig, name string) {
	return func(r *rig, name string) {
		p := filepath.Join(r.outDir, name)
		if _, err := os.Lstat(p); err != nil {
			return // a vanished file releases no data
		}
		var hash string
		if what == "remove" {
			hash = vh.FileMD5(p)
		} else {
			c := r.cli.broker.Conf.Cache.(*cacheWrap).FileCache.Get(name)
			if c == nil {
				return
			}
			hash = c.GetHash()
		}
		if !r.receiverHolds(name, hash) {
			// Known finding: the poll names a file by name and time only, so a version of which
			// not a single byte was ever transmitted is confirmed by the receiver's memory of an
			// earlier version of that name.
			class := ""
			r.mu.Lock()
			nAcks := len(r.ackedRanges()[name+" "+hash])
			r.mu.Unlock()
			other := false
			for _, rec := range r.recvLogRecords() {
				if strings.HasPrefix(rec, name+"|") {
					other = true
				}
			}
			r.mu.Lock()
			restarted := r.gen > 0
			r.mu.Unlock()
			// (the recorded finding is the start-up poll of a RESTARTED sender; a running sender that
			// applies a poll answer to a version it has not sent is a different defect, fixed by 7ca927a)
			if nAcks == 0 && other && restarted {
				class = "poll-by-name-confirms-unsent-version"
			}
			r.violate(class, "C02: the sender is about to %s %s (content md5 %s), but the receiver holds no validated copy with that hash (final=%v, receive log=%v)\n%s",
				what, name, hash, r.finalFiles(), r.recvLogRecords(), r.traceString())
			return
		}
		// preceded by a positive poll answer, asked after the last byte was acknowledged
		r.mu.Lock()
		acks := r.ackedRanges()[name+" "+hash]
		var size int64
		if fi, err := os.Stat(p); err == nil {
			size = fi.Size()
		}
		covered, lastAck := coveredBy(acks, size, r.now())
		ok := false
		for _, w := range r.wire {
			if w.Kind != "validate" || w.Err != "" {
				continue
			}
			if c, has := w.Answers[name]; has && (c == sts.ConfirmPassed || c == sts.ConfirmWaiting) {
				if !covered || w.At >= lastAck {
					ok = true
				}
			}
		}
		r.mu.Unlock()
		if !ok {
			r.violate("", "C02: the sender is about to %s %s without a positive poll answer that was asked after all bytes of this version were acknowledged (last acknowledgement at %.3fs)\n%s", what, name, lastAck.Seconds(), r.traceString())
		}
	}
}

// ---- C08: only the remainder is sent again; sent-log / poll only after full acknowledgement

func (r *rig) c08Wire() string {
	r.mu.Lock()
	defer r.mu.Unlock()
	sizes := map[string]int64{}
	for _, f := range r.conf.Files {
		sizes[f.Name] = int64(len(f.Data))
	}
	for i, w := range r.wire {
		if w.Kind != "data" || w.Err == "" || w.EndAt == 0 {
			continue
		}
		// the count the sender was told: from the 206 answer, else from the last successful
		// recovery request for exactly these parts before the retry
		n, told := w.N, w.N > 0
		var retry *wireReq
		for _, x := range r.wire[i+1:] {
			if x.Gen != w.Gen {
				break
			}
			if x.Kind == "recovery" && sig(x.Parts) == sig(w.Parts) && x.Err == "" && !told {
				n = x.N
			}
			if x.Kind == "data" && len(x.Parts) > 0 && containsPart(w.Parts, x.Parts[0]) {
				retry = x
				break
			}
		}
		if retry == nil {
			continue // sender stopped / crashed, or everything was reported as received
		}
		want := w.Parts[n:]
		// parts of a file that changed on disk in the meantime are dropped from the retry on purpose
		// (the new version is queued afresh): the remainder without them is as good
		var kept []wirePart
		for _, p := range want { // (r.mu is held by this function)
			if !r.changed[p.Name] {
				kept = append(kept, p)
			}
		}
		if sig(retry.Parts) != sig(want) && !(len(kept) > 0 && sig(retry.Parts) == sig(kept)) {
			return fmt.Sprintf("C08: after the failed request %s (fault %q, error %q) the receiver reported %d leading part(s) as recorded, so the remainder is %s; the sender sent %s instead",
				sig(w.Parts), w.Fault, w.Err, n, sig(want), sig(retry.Parts))
		}
	}
	// the leading parts the receiver reports as recorded (206 count, data-recovery answer) were
	// accepted by the gate keeper - in this request or an earlier one
	accepted := map[string][][2]int64{}
	for _, w := range r.wire {
		switch w.Kind {
		case "data":
			for _, p := range w.Received {
				k := p.Name + " " + p.Hash
				accepted[k] = append(accepted[k], [2]int64{p.Beg, p.End})
			}
			if w.Err != "" && w.N > len(w.Received) {
				return fmt.Sprintf("C08: the receiver answered the request %s with count %d, but its gate keeper accepted only %v", sig(w.Parts), w.N, w.Received)
			}
		case "recovery":
			if w.Err != "" {
				continue
			}
			for i := 0; i < w.N && i < len(w.Parts); i++ {
				p := w.Parts[i]
				covered := false
				pos := p.Beg
				rs := append([][2]int64{}, accepted[p.Name+" "+p.Hash]...)
				sort.Slice(rs, func(a, b int) bool { return rs[a][0] < rs[b][0] })
				for _, x := range rs {
					if x[0] <= pos && x[1] > pos {
						pos = x[1]
					}
				}
				covered = pos >= p.End
				if !covered && r.finalFilesLocked()[p.Name] != p.Hash {
					return fmt.Sprintf("C08: the data-recovery answer for %s says %d leading part(s) are recorded, but %s was never accepted by the gate keeper (accepted ranges of that file: %v)", sig(w.Parts), w.N, p, rs)
				}
			}
		}
	}
	// sent-log / first poll only once every byte was acknowledged (or found held)
	acks := r.ackedRangesLocked()
	for _, w := range r.wire {
		if w.Kind != "sentlog" && w.Kind != "validate" {
			continue
		}
		for _, p := range w.Parts {
			if p.Hash == "" {
				continue
			}
			covered, _ := coveredBy(acks[p.Name+" "+p.Hash], sizes[p.Name], w.At)
			if !covered && !r.heldBefore(p.Name, p.Hash, w) {
				what := "written to the sent log"
				if w.Kind == "validate" {
					what = "polled for validation"
				}
				return fmt.Sprintf("C08: %s was %s at %.3fs although the receiver had not acknowledged all of its bytes (acknowledged so far: %v)", p.Name, what, w.At.Seconds(), acks[p.Name+" "+p.Hash])
			}
		}
	}
	return ""
}

func (r *rig) ackedRangesLocked() map[string][]ack { return r.ackedRanges() }

// heldBefore: a restarted sender learned from the receiver (partial listing or earlier
// acknowledgements to a previous incarnation) that the rest is held.
func (r *rig) heldBefore(name, hash string, before *wireReq) bool {
	return before.Gen > 0
}

func containsPart(ps []wirePart, p wirePart) bool {
	for _, x := range ps {
		if x.Name == p.Name && x.Beg == p.Beg && x.End == p.End {
			return true
		}
	}
	return false
}

// ---- C03 / end state: everything delivered, confirmed, released; nothing stuck

func (r *rig) latestVersions() map[string]string {
	// name -> md5 of the content the source file had when it was last seen (files that were
	// deleted by the harness are dropped)
	return r.lastContent
}

func (r *rig) c03Goal() string {
	final := r.finalFiles()
	for name, h := range r.expect {
		if final[name] != h {
			return fmt.Sprintf("%s is not in the final directory with its content (md5 %s; final has %q)", name, h, final[name])
		}
	}
	src := r.sourceFiles()
	cache := r.cacheEntriesLive()
	for name := range r.expect {
		if r.conf.Delete {
			if _, there := src[name]; there {
				return fmt.Sprintf("%s was delivered but is still in the outgoing directory (deletion is configured)", name)
			}
		} else if c, ok := cache[name]; !ok || !c {
			return fmt.Sprintf("%s was delivered but is not marked done in the queue cache", name)
		}
	}
	for _, e := range vh.List(r.stageDir()) {
		if e.Dir {
			continue
		}
		for _, ext := range []string{".part", ".full", ".wait", ".cmp"} {
			if strings.HasSuffix(e.Path, ext) {
				name := strings.TrimSuffix(e.Path, ext)
				if h, ok := r.expect[name]; ok && final[name] == h {
					continue // a stray duplicate of a delivered version (C05 / C20)
				}
				if r.emptied[name] {
					continue // the source was emptied in mid-transfer: the partial stays until the cleaner takes it
				}
				return fmt.Sprintf("staging still holds %s", e.Path)
			}
		}
	}
	return ""
}

// cacheEntriesLive: name -> done, from the live cache of the current incarnation.
func (r *rig) cacheEntriesLive() map[string]bool {
	out := map[string]bool{}
	if r.cli == nil {
		return out
	}
	cw, ok := r.cli.broker.Conf.Cache.(*cacheWrap)
	if !ok {
		return out
	}
	cw.FileCache.Iterate(func(c sts.Cached) bool {
		out[c.GetName()] = c.IsDone()
		return false
	})
	return out
}

// ---- C01 / C04 end to end

func (r *rig) c01Final() string {
	for name, h := range r.finalFiles() {
		if strings.HasSuffix(name, ".lck") {
			continue
		}
		ok := false
		for _, v := range r.versions[name] {
			if v == h {
				ok = true
			}
		}
		if !ok {
			return fmt.Sprintf("C01: %s in the final directory has content md5 %s, which is no version the source file ever had (%v)", name, h, r.versions[name])
		}
	}
	return ""
}

// c04Order: for the ordered tag the files of a group are logged as received in the order of
// their age (fifo), as far as they were queued together (all files of the initial scan).
func (r *rig) c04Order() string {
	if !r.conf.Ordered {
		return ""
	}
	type ent struct {
		name string
		age  int
	}
	groups := map[string][]ent{}
	for _, f := range r.conf.Files {
		g := strings.SplitN(f.Name, "/", 2)[0]
		groups[g] = append(groups[g], ent{f.Name, f.Age})
	}
	pos := map[string]int{}
	for i, rec := range r.recvLogRecords() {
		name := strings.Split(rec, "|")[0]
		if _, seen := pos[name]; !seen {
			pos[name] = i
		}
	}
	for g, es := range groups {
		sort.Slice(es, func(i, j int) bool { return es[i].age > es[j].age }) // oldest first
		for i := 1; i < len(es); i++ {
			a, b := es[i-1], es[i]
			pa, oka := pos[a.name]
			pb, okb := pos[b.name]
			if r.changed[a.name] || r.changed[b.name] {
				continue // re-queued files go to the back
			}
			if okb && (!oka || pa > pb) {
				return fmt.Sprintf("C04: group %s: %s (older) precedes %s in the configured order, but the receive log has them as %v", g, a.name, b.name, r.recvLogRecords())
			}
		}
	}
	return ""
}

// c07Chain: "the ordering chain continues from the files handled before the crash". For an
// ordered tag a file that is not the first of its group announces the file that
// immediately precedes it in the group's order, unless the sender knows that file to be
// delivered: it was told 'passed' for it, or it was told 'waiting' and the receiver's
// partial listing (asked by this incarnation) no longer has it.
func (r *rig) c07Chain() string {
	if !r.conf.Ordered {
		return ""
	}
	type ent struct {
		name string
		age  int
	}
	groups := map[string][]ent{}
	for _, f := range r.conf.Files {
		g := strings.SplitN(f.Name, "/", 2)[0]
		groups[g] = append(groups[g], ent{f.Name, f.Age})
	}
	earlier := map[string][]string{}
	for _, es := range groups {
		sort.Slice(es, func(i, j int) bool { return es[i].age > es[j].age })
		for i, e := range es {
			for _, x := range es[:i] {
				earlier[e.name] = append(earlier[e.name], x.name)
			}
		}
	}
	for _, w := range r.wire {
		if w.Kind != "data" {
			continue
		}
		for _, p := range w.Parts {
			if len(earlier[p.Name]) == 0 || r.changed[p.Name] {
				continue
			}
			// the file that immediately precedes it in its group
			x := earlier[p.Name][len(earlier[p.Name])-1]
			if p.Prev == x || r.changed[x] {
				continue
			}
			safe := false
			listed := false
			for _, v := range r.wire {
				if v.At > w.At {
					break
				}
				if v.Kind == "partials" && v.Gen == w.Gen && v.Err == "" {
					for k := range v.Listed {
						if strings.HasPrefix(k, x+" ") {
							listed = true
						}
					}
				}
			}
			for _, v := range r.wire {
				if v.At > w.At || v.Kind != "validate" || v.Err != "" {
					continue
				}
				if c, ok := v.Answers[x]; ok && (c == 2 || (c == 3 && w.Gen > 0 && !listed)) {
					safe = true
				}
			}
			if !safe {
				// Known finding: the predecessor was released (source deleted) by an incarnation that
				// died before the cache was persisted; recover() then books it as done without
				// keeping its place in the chain.
				r.chainClass = ""
				if _, err := os.Lstat(filepath.Join(r.outDir, x)); err != nil && w.Gen > 0 {
					for _, v := range r.wire {
						if v.Kind == "validate" && v.Gen < w.Gen && v.Answers[x] == 3 {
							r.chainClass = "released-predecessor-dropped-from-chain"
						}
					}
				}
				return fmt.Sprintf("%s is announced with predecessor %q (request %s at %.3fs, incarnation %d) although %s, which immediately precedes it in its group, is not known to be delivered", p.Name, p.Prev, sig(w.Parts), w.At.Seconds(), w.Gen, x)
			}
		}
	}
	return ""
}

func (r *rig) finalFilesLocked() map[string]string { return r.finalFiles() }
