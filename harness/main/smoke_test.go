//go:build verif

package main

import (
	"encoding/json"
	"fmt"
	"os"
	"strings"
	"testing"
	"testing/synctest"
	"time"
)

func smokeConf() rigConf {
	return rigConf{
		Name: "src",
		Files: []rigFile{
			{Name: "g/a", Data: "AAAAAAAAAAAAAAAAAAAAAAAAAAAAAAAAAAAAAAAA", Age: 300}, // 40 bytes
			{Name: "g/b", Data: "BBBBBBBBBBBBBBBB", Age: 200},
			{Name: "h/c", Data: "CCCCCCCCCCCCCCCCCCCCCCCC", Age: 100},
		},
		Threads: 2, BinSize: 32, Ordered: true, Delete: true, OneShot: true,
		ScanDelay: 30 * time.Second, PollDelay: 2 * time.Second, PollInterval: 5 * time.Second, PollAttempts: 3, PollMaxCount: 2,
		Horizon: time.Hour,
	}
}

func TestRigSmoke(t *testing.T) {
	if os.Getenv("VERIF_SMOKE") == "" {
		t.Skip()
	}
	n := 1
	fmt.Sscan(os.Getenv("VERIF_SMOKE"), &n)
	start := time.Now()
	for i := 0; i < n; i++ {
		synctest.Test(t, func(t *testing.T) {
			r := newRig(smokeConf(), nil)
			r.run(nil)
			if i == 0 {
				fmt.Println("finished:", r.finished, "at", r.doneAt)
				fmt.Println(r.traceString())
				fmt.Println("final:", r.finalFiles())
				fmt.Println("source:", r.sourceFiles())
				fmt.Println("log:", r.recvLogRecords())
				fmt.Println("cache:", r.cacheEntries())
				for _, e := range r.events {
					fmt.Println("  event", e.Key)
				}
			}
			r.close()
		})
	}
	fmt.Println("runs:", n, "wall:", time.Since(start))
}

// TestRigTrace replays a plan and prints the trace (debugging aid).
func TestRigTrace(t *testing.T) {
	var rc struct {
		Scenario string `json:"scenario"`
		Plan     Plan   `json:"plan"`
	}
	if os.Getenv("VERIF_REPLAY") == "" {
		t.Skip()
	}
	b, _ := os.ReadFile(os.Getenv("VERIF_REPLAY"))
	var wrap struct {
		Replay json.RawMessage `json:"replay"`
	}
	_ = json.Unmarshal(b, &wrap)
	_ = json.Unmarshal(wrap.Replay, &rc)
	conf := confTwoThreads()
	if rc.Scenario == "2 files, 1 thread" {
		conf = confOneThread()
	}
	if strings.HasPrefix(rc.Scenario, "4 files of one group") {
		conf = confOneGroup()
	}
	synctest.Test(t, func(t *testing.T) {
		r := newRig(conf, rc.Plan)
		r.run(nil)
		fmt.Println("finished:", r.finished, "at", r.doneAt, "stopped:", r.stopped)
		fmt.Println(r.traceString())
		fmt.Println("c08:", r.c08Wire())
		for _, e := range r.events {
			fmt.Println("  event", e.Key, e.Done)
		}
		r.close()
	})
}
