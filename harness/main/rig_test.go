//go:build verif

package main

import (
	"bytes"
	"encoding/json"
	"errors"
	"fmt"
	"io"
	"os"
	"path/filepath"
	"regexp"
	"runtime"
	"sort"
	"strings"
	"sync"
	"testing/synctest"
	"time"

	"github.com/alecthomas/units"
	"github.com/arm-doe/sts"
	"github.com/arm-doe/sts/client"
	stshttp "github.com/arm-doe/sts/http"
	"github.com/arm-doe/sts/internal/verif/vh"
	"github.com/arm-doe/sts/internal/verif/vos"
	"github.com/arm-doe/sts/log"
	"github.com/arm-doe/sts/stage"
)

// The end-to-end rig of engine E-ENV: a real sender (clientApp.init: store, cache, queue,
// payload, http client, broker) and a real receiver (serverApp.init: http server, stages,
// receive logs) in one process, inside a testing/synctest bubble, connected by an
// in-memory network. The harness owns the environment through wrappers around every
// member of client.Conf and around the gate keepers; a *plan* says at which environment
// action (identified by content, not by a global index) something other than the default
// happens.

func init() {
	log.InitExternal(vh.NullLogger{})
	os.Setenv("TZ", "UTC")
}

// ---------------------------------------------------------------- configuration

type rigFile struct {
	Name string `json:"name"`
	Data string `json:"data"`
	Age  int    `json:"age_s"` // age of the file when the run starts (seconds)
}

type rigConf struct {
	Name         string        `json:"name"`
	Files        []rigFile     `json:"files"`
	Threads      int           `json:"threads"`
	BinSize      int           `json:"bin_size"`
	ChunkSize    int           `json:"chunk_size,omitempty"` // tag option chunk-size (0: chunks as large as a payload)
	Ordered      bool          `json:"ordered"`
	Delete       bool          `json:"delete"`
	OneShot      bool          `json:"one_shot"` // graceful stop right after start (as main does without --loop)
	Rerun        bool          `json:"rerun"`    // a one-shot sender that exited with work left is invoked again a minute later (cron)
	ScanDelay    time.Duration `json:"scan_delay"`
	PollDelay    time.Duration `json:"poll_delay"`
	PollInterval time.Duration `json:"poll_interval"`
	PollAttempts int           `json:"poll_attempts"`
	PollMaxCount int           `json:"poll_max_count"`
	Horizon      time.Duration `json:"horizon"` // virtual time allowed after the last deviation
	MinAge       time.Duration `json:"min_age"`
	Compression  int           `json:"compression"`
	SlowRead     bool          `json:"slow_read,omitempty"` // source file reads take time (see storeWrap.GetOpener)
	DeleteDelay  time.Duration `json:"delete_delay,omitempty"` // tag option delete-delay: a confirmed file is deleted only when its modification time is this old (then by a later scan)
	OpenEvents   bool          `json:"open_events,omitempty"`   // every opening of a source file (hashing, encoding) is an environment action (where a stop can arrive)
	ReverseParts bool          `json:"reverse_parts,omitempty"` // the receiver's partial listing reports the parts of each file in descending order (no order is promised)
	DamageFirst  bool          `json:"damage_first,omitempty"` // the first transmission of every part arrives damaged (every file fails validation once)
	// eligibility (C17)
	IncludeHidden bool     `json:"include_hidden"`
	Include       []string `json:"include"`
	Ignore        []string `json:"ignore"`
	NonHTTPTag    string   `json:"non_http_tag"` // pattern of a tag with another method: such files are not for this sender
}

// Deviation: at the environment action with this key do something other than the default.
type Deviation struct {
	At string `json:"at"`
	Do string `json:"do"`
}

type Plan []Deviation

func (p Plan) String() string {
	var s []string
	for _, d := range p {
		s = append(s, d.At+"=>"+d.Do)
	}
	return strings.Join(s, " ; ")
}

func (p Plan) canon() Plan {
	q := append(Plan{}, p...)
	sort.Slice(q, func(i, j int) bool { return q[i].At+"\x00"+q[i].Do < q[j].At+"\x00"+q[j].Do })
	return q
}

// Event is one environment action observed during a run.
type Event struct {
	Key  string   `json:"key"`
	Kind string   `json:"kind"`
	Menu []string `json:"-"`
	Done string   `json:"did,omitempty"` // alternative taken ("" = default)
	At   time.Duration
	Gen  int // sender incarnation
}

// wire-level records
type wirePart struct {
	Name     string
	Beg, End int64
	Hash     string
	Prev     string
}

func (p wirePart) String() string { return fmt.Sprintf("%s[%d,%d)", p.Name, p.Beg, p.End) }

func prevs(ps []wirePart) string {
	var s []string
	for _, p := range ps {
		s = append(s, p.Name+"<-"+p.Prev)
	}
	return strings.Join(s, ",")
}

type wireReq struct {
	Kind     string // data | recovery | validate | partials
	Gen      int
	Parts    []wirePart
	Fault    string
	Err      string
	N        int            // count returned to the broker
	Received []wirePart     // parts the gate keeper accepted during this request (data)
	Answers  map[string]int // validate: name -> code
	Listed   map[string][][2]int64
	At       time.Duration
	EndAt    time.Duration
}

// preloaded: a version the receiver delivered in an earlier run.
type preloaded struct {
	Name string
	Data string
	AgeH int // hours before the run starts
}

// ---------------------------------------------------------------- the rig

type rig struct {
	conf    rigConf
	root    string
	plan    map[string]string
	used    map[string]bool
	mu      sync.Mutex
	t0      time.Time
	events  []Event
	counts  map[string]int
	wire    []*wireReq
	notes   []string
	net     *vh.MemNet
	lastDev time.Duration

	// receiver
	rgen    int
	rsem    chan struct{}
	unavail bool // the next readiness test of the receiver answers no (one shot)
	srvApp  *serverApp
	srv     *stshttp.Server
	srvStop chan bool
	srvDone chan bool
	recvDir string            // root of the receiver's directories (changes with every receiver incarnation)
	armed   map[string]string // "name beg end" -> fail | corrupt (one shot, consumed by the gate keeper wrapper)
	stages  []*stage.Stage
	oldRecv []string

	// sender
	gen      int
	sendDir  string // root of cache + logs of the current sender incarnation
	outDir   string
	cli      *clientApp
	stop     chan bool
	doneCh   chan int // incarnation number of a sender that exited while it was the current one
	sendLogs []*log.FileIO
	stopped  string // "", "graceful", "now": a stop was requested by the plan
	stopAt   time.Duration
	doneAt   time.Duration
	finished bool
	reruns   int

	// what the source directory held: every content (md5) each name ever had, the content
	// expected to arrive in the end, names the harness changed during the run
	versions    map[string][]string
	queued      []queuedFile      // every version that was put into the queue cache
	emptied     map[string]bool   // files the harness truncated to zero length (and has not refilled)
	damaged     map[string]bool   // DamageFirst: parts that arrived damaged once already
	wantBytes   map[string]string // C13: content of (unchanging) source files; parts handed to the gate keeper are compared with it
	byteViol    string
	expect      map[string]string
	lastContent map[string]string
	changed     map[string]bool
	sizes       map[string]int64 // "name hash" -> size of that version
	recreated   int

	downUntil time.Duration // the receiver is unreachable until then
	preload   []preloaded   // what the receiver delivered and logged in an earlier run (known only from its log)
	fileOps   []string      // file changes offered at every sender action (C17): rewrite, append, touch, delete

	// snapshot taken when the sender crashes: what the receiver had delivered by then
	finalAtCrash []map[string]string

	// oracle hooks
	onRemove   func(r *rig, name string)
	onDone     func(r *rig, name string)
	viol       string
	class      string
	chainClass string // classifier of the last chain violation found by c07Chain
}

func (r *rig) now() time.Duration { return time.Since(r.t0) }

func (r *rig) violate(class, format string, a ...interface{}) {
	r.mu.Lock()
	defer r.mu.Unlock()
	if r.viol == "" {
		r.viol = fmt.Sprintf(format, a...)
		r.class = class
	}
}

func (r *rig) note(format string, a ...interface{}) {
	r.mu.Lock()
	r.notes = append(r.notes, fmt.Sprintf("%8.3fs ", r.now().Seconds())+fmt.Sprintf(format, a...))
	r.mu.Unlock()
}

func newRig(conf rigConf, plan Plan) *rig {
	r := &rig{conf: conf, plan: map[string]string{}, used: map[string]bool{}, counts: map[string]int{}, armed: map[string]string{}}
	for _, d := range plan {
		r.plan[d.At] = d.Do
	}
	vh.Epoch2011()
	r.root = vh.NewSandbox()
	r.t0 = time.Now()
	r.outDir = filepath.Join(r.root, "out")
	r.versions, r.expect, r.lastContent, r.changed = map[string][]string{}, map[string]string{}, map[string]string{}, map[string]bool{}
	r.emptied = map[string]bool{}
	r.sizes = map[string]int64{}
	for _, f := range conf.Files {
		vh.WriteFileAt(filepath.Join(r.outDir, f.Name), []byte(f.Data), r.t0.Add(-time.Duration(f.Age)*time.Second))
		h := vh.MD5([]byte(f.Data))
		r.versions[f.Name] = append(r.versions[f.Name], h)
		r.expect[f.Name] = h
	}
	_ = os.MkdirAll(r.outDir, 0755)
	vos.FixTree(r.root)
	r.net = &vh.MemNet{}
	r.net.Install()
	return r
}

// at registers an environment action and returns what the plan wants done there.
func (r *rig) at(kind, ident string, menu []string) (key, alt string) {
	r.mu.Lock()
	defer r.mu.Unlock()
	base := kind + ":" + ident
	r.counts[base]++
	key = fmt.Sprintf("%s#%d", base, r.counts[base])
	alt = r.plan[key]
	if alt != "" {
		r.used[key] = true
		r.lastDev = r.now()
	}
	r.events = append(r.events, Event{Key: key, Kind: kind, Menu: menu, Done: alt, At: r.now(), Gen: r.gen})
	return
}

// ---------------------------------------------------------------- receiver

func (r *rig) recvDirs(root string) *sts.ServerDirs {
	return &sts.ServerDirs{
		LogIn:  filepath.Join(root, "logs-in"),
		LogMsg: filepath.Join(root, "logs-msg"),
		Stage:  filepath.Join(root, "stage"),
		Final:  filepath.Join(root, "final"),
		Serve:  filepath.Join(root, "serve"),
	}
}

func (r *rig) buildServerApp(root string) *serverApp {
	dirs := r.recvDirs(root)
	for _, d := range []string{dirs.LogIn, dirs.LogMsg, dirs.Stage, dirs.Final, dirs.Serve} {
		_ = os.MkdirAll(d, 0755)
	}
	vos.FixTree(root)
	app := &serverApp{conf: &sts.ServerConf{
		Dirs:   dirs,
		Server: &sts.HTTPServer{Host: "recv", Port: 1992},
	}}
	if err := app.init(); err != nil {
		panic(err)
	}
	return app
}

func (r *rig) wrapFactory(f sts.GateKeeperFactory) sts.GateKeeperFactory {
	return func(source string) sts.GateKeeper { return r.wrapGK(f(source)) }
}

func (r *rig) wrapGK(gk sts.GateKeeper) sts.GateKeeper {
	if st, ok := gk.(*stage.Stage); ok {
		r.mu.Lock()
		r.stages = append(r.stages, st)
		r.mu.Unlock()
	}
	return &gkWrap{GateKeeper: gk, r: r, rgen: r.rgen}
}

func (r *rig) startReceiver() {
	r.recvDir = filepath.Join(r.root, fmt.Sprintf("recv%d", r.rgen))
	for _, p := range r.preload {
		t := time.Now().Add(-time.Duration(p.AgeH) * time.Hour)
		lf := filepath.Join(r.recvLog(), fmt.Sprintf("%04d%02d", t.Year(), t.Month()), fmt.Sprintf("%02d", t.Day()))
		_ = os.MkdirAll(filepath.Dir(lf), 0755)
		_ = os.MkdirAll(r.stageDir(), 0755)
		f, err := os.OpenFile(lf, os.O_APPEND|os.O_CREATE|os.O_WRONLY, 0644)
		if err != nil {
			panic(err)
		}
		h := vh.MD5([]byte(p.Data))
		fmt.Fprintf(f, "%s::%s:%d:%d:\n", p.Name, h, len(p.Data), t.Unix())
		f.Close()
		r.versions[p.Name] = append(r.versions[p.Name], h)
	}
	app := r.buildServerApp(r.recvDir)
	r.srvApp = app
	r.srv = app.server
	for k, gk := range r.srv.GateKeepers {
		r.srv.GateKeepers[k] = r.wrapGK(gk)
	}
	r.srv.GateKeeperFactory = r.wrapFactory(r.srv.GateKeeperFactory)
	r.srvStop = make(chan bool)
	r.srvDone = make(chan bool, 1)
	go r.srv.Serve(r.srvStop, r.srvDone)
}

// restartReceiver: the receiving process dies now (at rest with respect to the file
// system: a prefix of its completed system calls survives) and is started again by the
// real start-up code on the surviving directory tree.
func (r *rig) restartReceiver() {
	// two deviations may ask for a restart at the same virtual instant (a data request and a
	// validation on different goroutines): one incarnation at a time (a channel, not a mutex: waiting
	// on it is durable blocking for synctest)
	r.mu.Lock()
	if r.rsem == nil {
		r.rsem = make(chan struct{}, 1)
	}
	sem := r.rsem
	r.mu.Unlock()
	sem <- struct{}{}
	defer func() { <-sem }()
	old := r.recvDir
	r.mu.Lock()
	r.rgen++
	oldStages := r.stages
	r.stages = nil
	r.mu.Unlock()
	newDir := filepath.Join(r.root, fmt.Sprintf("recv%d", r.rgen))
	if err := vh.CopyTreeStamped(old, newDir); err != nil {
		panic(err)
	}
	r.recvDir = newDir
	r.oldRecv = append(r.oldRecv, old)
	app := r.buildServerApp(newDir) // serverApp.init: one stage per directory found, `go stager.Recover()`
	gks := map[string]sts.GateKeeper{}
	for k, gk := range app.server.GateKeepers {
		gks[k] = r.wrapGK(gk)
	}
	r.srvApp = app
	r.srv.VerifSwapGateKeepers(gks, r.wrapFactory(app.server.GateKeeperFactory))
	for _, st := range oldStages {
		st.VerifTeardown()
	}
	r.note("receiver restarted (incarnation %d)", r.rgen)
}

// stage returns the current Stage of the source (nil if none yet).
func (r *rig) stage() *stage.Stage {
	for _, gk := range r.srv.VerifGateKeepers() {
		if w, ok := gk.(*gkWrap); ok {
			if st, ok := w.GateKeeper.(*stage.Stage); ok {
				return st
			}
		}
	}
	return nil
}

func (r *rig) finalDir() string { return filepath.Join(r.recvDir, "final", r.conf.Name) }
func (r *rig) stageDir() string { return filepath.Join(r.recvDir, "stage", r.conf.Name) }
func (r *rig) recvLog() string  { return filepath.Join(r.recvDir, "logs-in", r.conf.Name) }

type gkWrap struct {
	sts.GateKeeper
	r    *rig
	rgen int
}

func partKey(name string, beg, end int64) string { return fmt.Sprintf("%s %d %d", name, beg, end) }

func (g *gkWrap) dead() bool { return g.rgen != g.r.rgen }

func (g *gkWrap) Receive(file *sts.Partial, reader io.Reader) error {
	r := g.r
	p := file.Parts[0]
	k := partKey(file.Name, p.Beg, p.End)
	r.mu.Lock()
	fault := r.armed[k]
	delete(r.armed, k)
	r.mu.Unlock()
	if g.dead() {
		return errors.New("injected: receiver is gone")
	}
	if r.conf.DamageFirst && fault == "" {
		r.mu.Lock()
		if r.damaged == nil {
			r.damaged = map[string]bool{}
		}
		if !r.damaged[k] {
			r.damaged[k] = true
			fault = "corrupt"
		}
		r.mu.Unlock()
	}
	switch fault {
	case "fail":
		return errors.New("injected: receiver error on part " + k)
	case "corrupt":
		b, _ := io.ReadAll(reader)
		if len(b) > 0 {
			b[0] ^= 0x20
		}
		reader = bytes.NewReader(b)
	}
	var got bytes.Buffer
	if r.wantBytes != nil {
		reader = io.TeeReader(reader, &got)
	}
	err := g.GateKeeper.Receive(file, reader)
	if want, ok := r.wantBytes[file.Name]; ok && err == nil && fault == "" {
		// C13: each part carries exactly its bytes and never a byte of its neighbour
		if p.End > int64(len(want)) || got.String() != want[p.Beg:p.End] {
			r.mu.Lock()
			if r.byteViol == "" {
				r.byteViol = fmt.Sprintf("part %s was decoded as %q, the sender encoded %q", k, clip(got.String()), clip(safeStr(want, p.Beg, p.End)))
			}
			r.mu.Unlock()
		}
	}
	if err == nil {
		r.mu.Lock()
		// attribute to the data request in flight that carries this part
		for i := len(r.wire) - 1; i >= 0; i-- {
			w := r.wire[i]
			if w.Kind == "data" && w.EndAt == 0 {
				for _, wp := range w.Parts {
					if wp.Name == file.Name && wp.Beg == p.Beg && wp.End == p.End {
						w.Received = append(w.Received, wp)
						i = -1
						break
					}
				}
			}
		}
		r.mu.Unlock()
	}
	return err
}

func (g *gkWrap) Ready() bool {
	if g.dead() {
		return false
	}
	g.r.mu.Lock()
	un := g.r.unavail
	g.r.unavail = false
	g.r.mu.Unlock()
	if un {
		return false
	}
	return g.GateKeeper.Ready()
}

// ---------------------------------------------------------------- sender

func (r *rig) sourceConf() *sts.SourceConf {
	c := r.conf
	tag := &sts.TagConf{Method: sts.MethodHTTP, Delete: c.Delete, DeleteDelay: c.DeleteDelay, ChunkSize: units.Base2Bytes(c.ChunkSize)}
	if c.Ordered {
		tag.Order = sts.OrderFIFO
	} else {
		tag.Order = sts.OrderNone
	}
	tags := []*sts.TagConf{tag}
	if c.NonHTTPTag != "" {
		tags = []*sts.TagConf{{Pattern: regexp.MustCompile(c.NonHTTPTag), Method: "disk"}, tag}
	}
	var include, ignore []*regexp.Regexp
	for _, p := range c.Include {
		include = append(include, regexp.MustCompile(p))
	}
	for _, p := range c.Ignore {
		ignore = append(ignore, regexp.MustCompile(p))
	}
	return &sts.SourceConf{
		IncludeHidden: c.IncludeHidden,
		Include:       include,
		Ignore:        ignore,
		Name:          c.Name,
		OutDir:        r.outDir,
		LogDir:        filepath.Join(r.sendDir, "logs"),
		Threads:       c.Threads,
		CacheAge:      24 * time.Hour,
		MinAge:        c.MinAge,
		ScanDelay:     c.ScanDelay,
		Timeout:       time.Hour,
		Compression:   c.Compression,
		StatInterval:  0,
		PollDelay:     c.PollDelay,
		PollInterval:  c.PollInterval,
		PollAttempts:  c.PollAttempts,
		PollMaxCount:  c.PollMaxCount,
		Target:        &sts.TargetConf{Name: "recv", Host: "recv:1992", Protocol: "http"},
		Tags:          tags,
		BinSize:       units.Base2Bytes(c.BinSize),
		GroupBy:       regexp.MustCompile(`^([^/]*)`),
		ErrorBackoff:  1,
	}
}

func (r *rig) startSender() {
	r.sendDir = filepath.Join(r.root, fmt.Sprintf("send%d", r.gen))
	_ = os.MkdirAll(filepath.Join(r.sendDir, "cache"), 0755)
	_ = os.MkdirAll(filepath.Join(r.sendDir, "logs"), 0755)
	vos.FixTree(r.sendDir)
	app := &clientApp{conf: r.sourceConf(), dirCache: filepath.Join(r.sendDir, "cache")}
	if err := app.init(); err != nil {
		panic(err)
	}
	// the bandwidth logger goroutine is not part of the protocol
	r.cli = app
	bc := app.broker.Conf
	gen := r.gen
	if l, ok := bc.Logger.(*log.FileIO); ok {
		r.sendLogs = append(r.sendLogs, l)
	}
	bc.Store = &storeWrap{FileSource: bc.Store, r: r, gen: gen}
	bc.Cache = &cacheWrap{FileCache: bc.Cache, r: r, gen: gen}
	bc.Logger = &loggerWrap{SendLogger: bc.Logger, r: r, gen: gen}
	realT, realR, realV, realP := bc.Transmitter, bc.TxRecoverer, bc.Validator, bc.Recoverer
	bc.Transmitter = func(p sts.Payload) (int, error) { return r.transmit(gen, realT, p) }
	bc.TxRecoverer = func(p sts.Payload) (int, error) { return r.txRecover(gen, realR, p) }
	bc.Validator = func(f []sts.Pollable) ([]sts.Polled, error) { return r.validate(gen, realV, f) }
	bc.Recoverer = func() ([]*sts.Partial, error) { return r.partials(gen, realP) }
	stop := make(chan bool, 2)
	done := make(chan bool, 1)
	r.mu.Lock()
	r.stop = stop
	r.finished = false
	if r.doneCh == nil {
		r.doneCh = make(chan int, 16)
	}
	r.mu.Unlock()
	go app.broker.Start(stop, done)
	go func() { // one watcher per incarnation; only the current incarnation's exit counts
		<-done
		r.mu.Lock()
		current := gen == r.gen
		r.mu.Unlock()
		if current {
			r.doneCh <- gen
		} else {
			app.destroy()
		}
	}()
	if r.conf.OneShot {
		stop <- true // main: stopClients(graceful) right after start when not running as a daemon
	}
}

// senderGone ends the calling goroutine if it belongs to a dead sender incarnation.
func (r *rig) senderGone(gen int) {
	r.mu.Lock()
	cur := r.gen
	r.mu.Unlock()
	if gen != cur {
		runtime.Goexit()
	}
}

// generic alternatives available at every sender-side action
var genericMenu = []string{"crash", "stop-g", "stop-n"}

// common handles the alternatives that are available at every sender action. It returns
// the alternative if it is specific to the action.
func (r *rig) common(gen int, kind, ident string, menu []string) string {
	r.senderGone(gen)
	_, alt := r.at(kind, ident, append(append([]string{}, menu...), r.fileMenu()...))
	switch {
	case alt == "crash":
		r.crashSender()
		runtime.Goexit()
	case alt == "stop-g":
		r.requestStop(true)
		return ""
	case alt == "stop-n":
		r.requestStop(false)
		return ""
	case alt == "recv-restart":
		r.restartReceiver()
		return ""
	case strings.HasPrefix(alt, "down:"):
		// the receiver is unreachable from now on for the given number of seconds
		var secs int
		fmt.Sscanf(alt[5:], "%d", &secs)
		r.mu.Lock()
		r.downUntil = r.now() + time.Duration(secs)*time.Second
		r.lastDev = r.downUntil
		r.mu.Unlock()
		r.note("receiver unreachable for %d s", secs)
		return ""
	case strings.HasPrefix(alt, "file:"):
		r.fileChange(alt)
		return ""
	}
	return alt
}

func (r *rig) isDown() bool {
	r.mu.Lock()
	defer r.mu.Unlock()
	return r.now() < r.downUntil
}

func (r *rig) requestStop(graceful bool) {
	r.mu.Lock()
	if r.stopped != "" {
		r.mu.Unlock()
		return
	}
	r.stopped = map[bool]string{true: "graceful", false: "now"}[graceful]
	r.stopAt = r.now()
	r.mu.Unlock()
	r.note("stop requested (%s)", r.stopped)
	r.mu.Lock()
	stop := r.stop
	r.mu.Unlock()
	go func() { stop <- graceful }()
}

// crashSender: the sending process dies right now. Its durable state (queue cache, sent
// log) is copied for the next incarnation; the old incarnation's goroutines end at their
// next environment action and cannot touch anything durable any more.
func (r *rig) crashSender() {
	r.mu.Lock()
	oldDir := r.sendDir
	oldStop := r.stop
	r.gen++
	r.mu.Unlock()
	newDir := filepath.Join(r.root, fmt.Sprintf("send%d", r.gen))
	if err := vh.CopyTreeStamped(oldDir, newDir); err != nil {
		panic(err)
	}
	r.finalAtCrash = append(r.finalAtCrash, r.finalFiles())
	r.note("sender crashed; incarnation %d starts", r.gen)
	go func() { oldStop <- false }() // drain the dead incarnation
	r.startSender()
}

// ---- file changes (C17)

func (r *rig) fileMenu() []string {
	var out []string
	for _, op := range r.fileOps {
		for _, f := range r.conf.Files {
			out = append(out, "file:"+op+":"+f.Name)
		}
	}
	return out
}

func (r *rig) fileChange(alt string) {
	// file:<op>:<name>
	f := strings.SplitN(alt, ":", 3)
	op, name := f[1], f[2]
	p := filepath.Join(r.outDir, name)
	now := time.Now()
	old, rerr := os.ReadFile(p)
	if rerr != nil && (op == "rewrite" || op == "append" || op == "touch" || op == "restore") {
		// the file is gone (delivered and deleted): the name is used again for new content
		r.recreated++
		vh.WriteFileAt(p, []byte(fmt.Sprintf("again %d: %s", r.recreated, name)), now)
		op = "recreate"
	}
	switch op {
	case "recreate":
	case "rewrite": // same size, new content (never seen before), new mtime
		r.recreated++
		nb := bytes.Repeat([]byte{byte('a' + r.recreated%26)}, len(old))
		if len(nb) > 0 {
			nb[0] = byte('0' + (r.recreated/26)%10)
		}
		vh.WriteFileAt(p, nb, now)
	case "restore": // same size, new content, modification time OLDER than before (cp -p, rsync -t, a restored backup)
		r.recreated++
		nb := bytes.Repeat([]byte{byte('A' + r.recreated%26)}, len(old))
		if len(nb) > 0 {
			nb[0] = byte('0' + (r.recreated/26)%10)
		}
		when := now.Add(-2 * time.Hour)
		if st, err := os.Stat(p); err == nil {
			when = st.ModTime().Add(-2 * time.Hour)
		}
		vh.WriteFileAt(p, nb, when)
	case "truncate": // emptied (a writer opened it with O_TRUNC): an empty file is not eligible
		vh.WriteFileAt(p, nil, now)
	case "append":
		vh.WriteFileAt(p, append(old, []byte("+more")...), now)
	case "touch":
		vos.Stamp(p, now)
	case "delete":
		_ = os.Remove(p)
	case "create":
		vh.WriteFileAt(p, []byte("new:"+name), now)
	}
	r.mu.Lock()
	r.changed[name] = true
	if b, err := os.ReadFile(p); err == nil && len(b) == 0 {
		delete(r.expect, name) // nothing of an empty file has to be delivered
		r.emptied[name] = true
	} else if err == nil {
		h := vh.MD5(b)
		r.versions[name] = append(r.versions[name], h)
		r.expect[name] = h
		r.sizes[name+" "+h] = int64(len(b))
		delete(r.emptied, name)
	} else {
		delete(r.expect, name)
	}
	r.mu.Unlock()
	r.note("file change %s %s", op, name)
}

// ---- wrappers

type storeWrap struct {
	sts.FileSource
	r   *rig
	gen int
}

func (s *storeWrap) Scan(f func(sts.File) bool) ([]sts.File, time.Time, error) {
	s.r.common(s.gen, "scan", "", genericMenu)
	return s.FileSource.Scan(f)
}

// Sync (the sender compares a file with its cache entry) is an environment action too: the
// alternative "delay:<seconds>" makes this one call slow (a sluggish network file system, a
// descheduled thread), which opens the windows between a check and the act that relies on it.
func (s *storeWrap) Sync(f sts.File) (sts.File, error) {
	alt := s.r.common(s.gen, "sync", f.GetName(), append([]string{"delay:45"}, genericMenu...))
	if strings.HasPrefix(alt, "delay:") {
		var secs int
		fmt.Sscanf(alt[6:], "%d", &secs)
		time.Sleep(time.Duration(secs) * time.Second)
		s.r.senderGone(s.gen)
	}
	return s.FileSource.Sync(f)
}

// GetOpener: with conf.SlowRead every read of a source file takes (virtual) time, as on a
// busy disk or a network file system: the sender's threads then interleave in the middle of
// encoding their payloads instead of running each request in one go.
func (s *storeWrap) GetOpener() sts.Open {
	open := s.FileSource.GetOpener()
	if s.r.conf.OpenEvents {
		plain := open
		open = func(f sts.File) (sts.Readable, error) {
			s.r.common(s.gen, "open", f.GetName(), genericMenu)
			// opening a file takes (virtual) time: everything else in the sender runs up to its next
			// blocking point before the opener's caller goes on - a stop requested here is in force,
			// and the hash stage's producer sits in its hand-over, when the worker looks again
			time.Sleep(time.Millisecond)
			return plain(f)
		}
	}
	if !s.r.conf.SlowRead {
		return open
	}
	return func(f sts.File) (sts.Readable, error) {
		rd, err := open(f)
		if err != nil {
			return rd, err
		}
		return &slowReadable{Readable: rd}, nil
	}
}

type slowReadable struct{ sts.Readable }

func (s *slowReadable) Read(p []byte) (int, error) {
	time.Sleep(10 * time.Millisecond)
	if len(p) > 512 {
		p = p[:512] // and it comes in pieces
	}
	return s.Readable.Read(p)
}

func (s *storeWrap) Remove(f sts.File) error {
	s.r.common(s.gen, "remove", f.GetName(), genericMenu)
	if h := s.r.onRemove; h != nil {
		h(s.r, f.GetName())
	}
	return s.FileSource.Remove(f)
}

type cacheWrap struct {
	sts.FileCache
	r   *rig
	gen int
}

func (c *cacheWrap) Done(name string, whileLocked func(sts.Cached)) {
	c.r.common(c.gen, "done", name, genericMenu)
	if h := c.r.onDone; h != nil {
		h(c.r, name)
	}
	c.FileCache.Done(name, whileLocked)
}

// Add: a hashed file enters the queue cache = it is queued for sending (observed, no deviation point).
func (c *cacheWrap) Add(f sts.Hashed) {
	c.r.mu.Lock()
	c.r.queued = append(c.r.queued, queuedFile{Name: f.GetName(), Size: f.GetSize(), Hash: f.GetHash()})
	c.r.mu.Unlock()
	c.FileCache.Add(f)
}

type queuedFile struct {
	Name string
	Size int64
	Hash string
}

func (c *cacheWrap) Persist() error {
	c.r.common(c.gen, "persist", "", genericMenu)
	return c.FileCache.Persist()
}

type loggerWrap struct {
	sts.SendLogger
	r   *rig
	gen int
}

func (l *loggerWrap) Sent(f sts.Sent) {
	l.r.common(l.gen, "sent", f.GetName(), genericMenu)
	l.r.mu.Lock()
	l.r.wire = append(l.r.wire, &wireReq{Kind: "sentlog", Gen: l.gen, Parts: []wirePart{{Name: f.GetName(), Hash: f.GetHash()}}, At: l.r.now(), EndAt: l.r.now()})
	l.r.mu.Unlock()
	l.SendLogger.Sent(f)
}

func payloadParts(p sts.Payload) []wirePart {
	var out []wirePart
	for _, b := range p.GetParts() {
		beg, n := b.GetSlice()
		out = append(out, wirePart{Name: b.GetName(), Beg: beg, End: beg + n, Hash: b.GetFileHash(), Prev: b.GetPrev()})
	}
	return out
}

func sig(parts []wirePart) string {
	var s []string
	for _, p := range parts {
		s = append(s, p.String())
	}
	return strings.Join(s, ",")
}

func (r *rig) transmit(gen int, real sts.Transmit, p sts.Payload) (int, error) {
	parts := payloadParts(p)
	menu := []string{"refuse", "lost", "recv-restart", "down:60"}
	if !r.conf.SlowRead {
		// (not with slow reads: the receiver answers 503 before it has read the body, the client
		// then closes the encoder - a write lock - while the body writer sleeps in a slow read under
		// the encoder's read lock; a goroutine waiting for a sync.RWMutex is not durably blocked, so
		// the bubble's clock could not advance to end the sleep: an artefact of synctest, not a deadlock)
		menu = append(menu, "unavail")
	}
	for i := range parts {
		menu = append(menu, fmt.Sprintf("gkfail:%d", i), fmt.Sprintf("cut:%d", i), fmt.Sprintf("corrupt:%d", i))
	}
	alt := r.common(gen, "data", sig(parts), append(menu, genericMenu...))
	w := &wireReq{Kind: "data", Gen: gen, Parts: parts, Fault: alt, At: r.now()}
	r.mu.Lock()
	r.wire = append(r.wire, w)
	r.mu.Unlock()
	finish := func(n int, err error) (int, error) {
		r.senderGone(gen)
		r.mu.Lock()
		w.N = n
		if err != nil {
			w.Err = err.Error()
		}
		w.EndAt = r.now()
		if w.EndAt == 0 {
			w.EndAt = 1
		}
		r.mu.Unlock()
		return n, err
	}
	lose := false
	switch {
	case alt == "refuse" || r.isDown():
		return finish(0, errors.New("injected: connection refused"))
	case alt == "lost":
		lose = true
	case alt == "unavail":
		// the receiver answers this request with an HTTP error status of its own (503: the
		// source's staging area says it is not ready) - the real client code classifies the answer
		r.mu.Lock()
		r.unavail = true
		r.mu.Unlock()
	case strings.HasPrefix(alt, "gkfail:"), strings.HasPrefix(alt, "cut:"), strings.HasPrefix(alt, "corrupt:"):
		var k int
		kind := alt[:strings.Index(alt, ":")]
		fmt.Sscanf(alt[len(kind)+1:], "%d", &k)
		if k < len(parts) {
			mode := "fail"
			if kind == "corrupt" {
				mode = "corrupt"
			}
			r.mu.Lock()
			r.armed[partKey(parts[k].Name, parts[k].Beg, parts[k].End)] = mode
			r.mu.Unlock()
			lose = kind == "cut"
		}
	}
	n, err := real(p)
	if lose && err == nil {
		return finish(0, errors.New("injected: answer lost"))
	}
	if lose {
		return finish(0, errors.New("injected: connection cut ("+err.Error()+")"))
	}
	return finish(n, err)
}

func (r *rig) txRecover(gen int, real sts.RecoverTransmission, p sts.Payload) (int, error) {
	parts := payloadParts(p)
	alt := r.common(gen, "recovery", sig(parts), append([]string{"refuse", "lost", "recv-restart"}, genericMenu...))
	w := &wireReq{Kind: "recovery", Gen: gen, Parts: parts, Fault: alt, At: r.now()}
	r.mu.Lock()
	r.wire = append(r.wire, w)
	r.mu.Unlock()
	var n int
	var err error
	if r.isDown() {
		alt = "refuse"
	}
	switch alt {
	case "refuse":
		err = errors.New("injected: connection refused")
	case "lost":
		_, _ = real(p)
		err = errors.New("injected: answer lost")
	default:
		n, err = real(p)
	}
	r.senderGone(gen)
	r.mu.Lock()
	w.N, w.EndAt = n, r.now()
	if err != nil {
		w.Err = err.Error()
	}
	r.mu.Unlock()
	return n, err
}

func (r *rig) validate(gen int, real sts.Validate, files []sts.Pollable) ([]sts.Polled, error) {
	var names []string
	for _, f := range files {
		names = append(names, f.GetName())
	}
	sort.Strings(names)
	alt := r.common(gen, "validate", strings.Join(names, ","), append([]string{"refuse", "lost", "recv-restart", "down:35", "down:60"}, genericMenu...))
	w := &wireReq{Kind: "validate", Gen: gen, Fault: alt, At: r.now(), Answers: map[string]int{}}
	for _, f := range files {
		w.Parts = append(w.Parts, wirePart{Name: f.GetName(), Hash: f.GetHash()})
	}
	r.mu.Lock()
	r.wire = append(r.wire, w)
	r.mu.Unlock()
	var polled []sts.Polled
	var err error
	if r.isDown() {
		alt = "refuse"
	}
	switch alt {
	case "refuse":
		err = errors.New("injected: connection refused")
	case "lost":
		_, _ = real(files)
		err = errors.New("injected: answer lost")
	default:
		polled, err = real(files)
	}
	r.senderGone(gen)
	r.mu.Lock()
	for _, p := range polled {
		code := sts.ConfirmNone
		switch {
		case p.Received():
			code = sts.ConfirmPassed
		case p.Waiting():
			code = sts.ConfirmWaiting
		case p.Failed():
			code = sts.ConfirmFailed
		}
		w.Answers[p.GetName()] = code
	}
	w.EndAt = r.now()
	if err != nil {
		w.Err = err.Error()
	}
	r.mu.Unlock()
	return polled, err
}

func (r *rig) partials(gen int, real sts.Recover) ([]*sts.Partial, error) {
	alt := r.common(gen, "partials", "", append([]string{"refuse"}, genericMenu...))
	w := &wireReq{Kind: "partials", Gen: gen, Fault: alt, At: r.now(), Listed: map[string][][2]int64{}}
	r.mu.Lock()
	r.wire = append(r.wire, w)
	r.mu.Unlock()
	if alt == "refuse" || r.isDown() {
		w.Err = "injected: connection refused"
		w.EndAt = r.now()
		return nil, errors.New(w.Err)
	}
	ps, err := real()
	r.senderGone(gen)
	if r.conf.ReverseParts {
		for _, p := range ps {
			for i, j := 0, len(p.Parts)-1; i < j; i, j = i+1, j-1 {
				p.Parts[i], p.Parts[j] = p.Parts[j], p.Parts[i]
			}
		}
	}
	r.mu.Lock()
	for _, p := range ps {
		var rs [][2]int64
		for _, x := range p.Parts {
			rs = append(rs, [2]int64{x.Beg, x.End})
		}
		w.Listed[p.Name+" "+p.Hash] = rs
	}
	w.EndAt = r.now()
	if err != nil {
		w.Err = err.Error()
	}
	r.mu.Unlock()
	return ps, err
}

// ---------------------------------------------------------------- running

// run executes until the sender signals done (one-shot / after a stop), the goal is
// reached (daemon mode) or the horizon passes. It returns whether the sender finished.
func (r *rig) run(goal func(r *rig) bool) {
	r.startReceiver()
	synctest.Wait() // the receiver is listening before the sender starts
	r.startSender()
	tick := time.Second
	lastEv, lastGoal := -1, time.Duration(0)
	for {
		select {
		case g := <-r.doneCh:
			if g != r.gen {
				continue
			}
			r.finished = true
			r.doneAt = r.now()
			if r.conf.OneShot && r.conf.Rerun && r.stopped == "" && goal != nil && !goal(r) && r.now()-r.lastDev <= r.conf.Horizon {
				// the next invocation of the one-shot sender (same cache and logs)
				time.Sleep(time.Minute)
				r.cli.destroy()
				old := r.sendDir
				r.mu.Lock()
				r.gen++
				r.mu.Unlock()
				if err := vh.CopyTreeStamped(old, filepath.Join(r.root, fmt.Sprintf("send%d", r.gen))); err != nil {
					panic(err)
				}
				r.reruns++
				r.note("one-shot sender invoked again (incarnation %d)", r.gen)
				r.startSender()
				continue
			}
			return
		case <-time.After(tick):
		}
		r.mu.Lock()
		nEv := len(r.events) + len(r.wire)
		r.mu.Unlock()
		if goal != nil && r.stopped == "" && !r.conf.OneShot && (nEv != lastEv || r.now()-lastGoal > time.Minute) {
			lastEv, lastGoal = nEv, r.now()
			if goal(r) {
				r.mu.Lock()
				stopped := r.stopped
				r.mu.Unlock()
				if stopped == "" { // (a stop issued while the goal was being evaluated gets its time)
					return
				}
			}
		}
		r.mu.Lock()
		quiet := r.now() - r.lastDev
		r.mu.Unlock()
		if quiet > r.conf.Horizon {
			return
		}
	}
}

// stuck lists where the sender's goroutines are blocked (diagnosis of a sender that does not exit).
func (r *rig) stuck() string {
	buf := make([]byte, 1<<20)
	n := runtime.Stack(buf, true)
	var out []string
	for _, g := range strings.Split(string(buf[:n]), "\n\n") {
		if !strings.Contains(g, "sts/client.") {
			continue
		}
		lines := strings.Split(g, "\n")
		var fr []string
		for _, l := range lines {
			if strings.Contains(l, "sts/client.") && !strings.HasPrefix(l, "created by") {
				fr = append(fr, strings.TrimSpace(l[strings.Index(l, "sts/client.")+4:]))
			} else if strings.Contains(l, "/client/client.go:") {
				fr = append(fr, strings.TrimSpace(l[strings.Index(l, "client.go:"):]))
			}
		}
		if len(fr) > 4 {
			fr = fr[:4]
		}
		out = append(out, lines[0]+" "+strings.Join(fr, " <- "))
	}
	sort.Strings(out)
	return strings.Join(out, "\n")
}

// close tears everything down so that the bubble can end.
func (r *rig) close() {
	if !r.finished {
		select {
		case r.stop <- false:
		default:
		}
		select {
		case <-r.doneCh:
		case <-time.After(10 * time.Minute):
			r.notes = append(r.notes, "sender did not stop within 10 min of virtual time at tear-down")
		}
	}
	if r.cli != nil {
		r.cli.destroy()
	}
	r.mu.Lock()
	r.gen = -1 // everything that is left of any sender incarnation ends at its next action
	stages := r.stages
	r.mu.Unlock()
	for _, st := range stages {
		st.VerifTeardown()
	}
	r.srvStop <- true
	select {
	case <-r.srvDone:
	case <-time.After(10 * time.Minute):
	}
	for _, l := range r.sendLogs {
		func() {
			defer func() { _ = recover() }()
			l.VerifClose()
		}()
	}
	r.net.Uninstall()
	vh.RemoveSandbox(r.root)
}

// ---------------------------------------------------------------- observations

func (r *rig) finalFiles() map[string]string {
	out := map[string]string{}
	for _, e := range vh.List(r.finalDir()) {
		if !e.Dir {
			out[e.Path] = e.MD5
		}
	}
	return out
}

// treeDump lists the outgoing, staging and final directories (for violation messages).
func (r *rig) treeDump() string {
	var b strings.Builder
	for _, d := range []struct{ what, dir string }{{"outgoing", r.outDir}, {"staging", r.stageDir()}, {"final", r.finalDir()}} {
		fmt.Fprintf(&b, "\n  %s:", d.what)
		for _, e := range vh.List(d.dir) {
			if !e.Dir {
				fmt.Fprintf(&b, " %s(%d,%s)", e.Path, e.Size, e.MD5[:6])
			}
		}
	}
	for _, l := range r.recvLogRecords() {
		fmt.Fprintf(&b, "\n  receive log: %s", l)
	}
	return b.String()
}

func (r *rig) sourceFiles() map[string]string {
	out := map[string]string{}
	for _, e := range vh.List(r.outDir) {
		if !e.Dir {
			out[e.Path] = e.MD5
		}
	}
	return out
}

func (r *rig) recvLogRecords() []string {
	var out []string
	var files []string
	_ = filepath.Walk(r.recvLog(), func(p string, info os.FileInfo, err error) error {
		if err == nil && !info.IsDir() {
			files = append(files, p)
		}
		return nil
	})
	sort.Strings(files)
	for _, f := range files {
		b, _ := os.ReadFile(f)
		for _, line := range strings.Split(string(b), "\n") {
			if parts := strings.Split(line, ":"); len(parts) >= 5 {
				out = append(out, parts[0]+"|"+parts[2])
			}
		}
	}
	return out
}

// cacheEntries reads the persisted queue cache of the current sender incarnation.
func (r *rig) cacheEntries() map[string]struct {
	Hash string
	Done bool
	Size int64
} {
	out := map[string]struct {
		Hash string
		Done bool
		Size int64
	}{}
	files, _ := filepath.Glob(filepath.Join(r.sendDir, "cache", "*.json"))
	for _, f := range files {
		var doc struct {
			Files map[string]struct {
				Size int64  `json:"size"`
				Hash string `json:"hash"`
				Done bool   `json:"done"`
			} `json:"files"`
		}
		b, _ := os.ReadFile(f)
		if json.Unmarshal(b, &doc) == nil {
			for k, v := range doc.Files {
				out[k] = struct {
					Hash string
					Done bool
					Size int64
				}{v.Hash, v.Done, v.Size}
			}
		}
	}
	return out
}

func (r *rig) traceString() string {
	var b strings.Builder
	r.mu.Lock()
	defer r.mu.Unlock()
	for _, w := range r.wire {
		switch w.Kind {
		case "data", "recovery":
			fmt.Fprintf(&b, "%8.3fs g%d %-8s %s fault=%q -> n=%d err=%q received=%v prev[%s]\n", w.At.Seconds(), w.Gen, w.Kind, sig(w.Parts), w.Fault, w.N, w.Err, w.Received, prevs(w.Parts))
		case "validate":
			fmt.Fprintf(&b, "%8.3fs g%d validate %v fault=%q -> %v err=%q\n", w.At.Seconds(), w.Gen, w.Parts, w.Fault, w.Answers, w.Err)
		case "partials":
			fmt.Fprintf(&b, "%8.3fs g%d partials fault=%q -> %v err=%q\n", w.At.Seconds(), w.Gen, w.Fault, w.Listed, w.Err)
		case "sentlog":
			fmt.Fprintf(&b, "%8.3fs g%d sent-log %s\n", w.At.Seconds(), w.Gen, w.Parts[0].Name)
		}
	}
	for _, n := range r.notes {
		b.WriteString(n + "\n")
	}
	return b.String()
}

var _ = client.Conf{}

func clip(s string) string {
	if len(s) > 48 {
		return s[:48] + "..."
	}
	return s
}

func safeStr(s string, beg, end int64) string {
	if beg > int64(len(s)) {
		beg = int64(len(s))
	}
	if end > int64(len(s)) {
		end = int64(len(s))
	}
	return s[beg:end]
}
