//go:build verif

package main

import (
	"bytes"
	"os"
	"path/filepath"
	"encoding/json"
	"fmt"
	"io"
	nethttp "net/http"
	"strconv"
	"testing"
	"testing/synctest"

	"github.com/arm-doe/sts"
	"github.com/arm-doe/sts/internal/verif/vh"
)

// C09 over HTTP: what the receiver answers to a data request that fails in the middle (206 with a
// count of parts received) and to the data-recovery request that may follow must be backed by its
// record: every part it counts is on the partial listing (or the file is complete).

func (r *recvRig) doH(q rawReq) (status int, hdr nethttp.Header, body string, err error) {
	req, err := nethttp.NewRequest(q.Method, "http://recv:1992"+q.Path, bytes.NewReader([]byte(q.Body)))
	if err != nil {
		return 0, nil, "", err
	}
	for k, v := range q.Headers {
		req.Header.Set(k, v)
	}
	resp, err := r.client.Do(req)
	if err != nil {
		return 0, nil, "", err
	}
	defer resp.Body.Close()
	b, _ := io.ReadAll(resp.Body)
	return resp.StatusCode, resp.Header, string(b), nil
}

func TestC09HTTP(t *testing.T) {
	rep := vh.NewReport("C09", "the counts answered over HTTP are backed by the record (exhaustive enumeration of cut points)")
	defer rep.Write()
	content := "0123456789abcdefghijABCDEFGHIJ" // 30 bytes in 3 parts of 10
	type rng struct{ b, e int }
	layouts := map[string][]rng{
		"in order":             {{0, 10}, {10, 20}, {20, 30}},
		"last part first":      {{20, 30}, {0, 10}, {10, 20}},
		"two files (f, then g)": {{0, 10}, {10, 20}, {0, 10}},
		// the file changed between two parts of one request: parts 1 and 2 announce another hash
		"hash changes after part 0": {{0, 10}, {10, 20}, {20, 30}},
	}
	content2 := "9876543210JIHGFEDCBAjihgfedcba" // the other version (same size)
	var rc struct {
		Layout string `json:"layout"`
		Cut    int    `json:"cut"`
	}
	replay := vh.ReplaySpec(&rc)
	n := 0
	for _, lname := range []string{"in order", "last part first", "two files (f, then g)", "hash changes after part 0"} {
		parts := layouts[lname]
		for cut := 0; cut <= 30; cut++ {
			n++
			if replay && (rc.Layout != lname || rc.Cut != cut) {
				continue
			}
			if !replay && !vh.Mine(n) {
				continue
			}
			bad := ""
			synctest.Test(t, func(t *testing.T) {
				r := newRecvRig(nil, nil, nil)
				defer r.close()
				var meta []map[string]interface{}
				body := ""
				for i, p := range parts {
					name := "f"
					if lname == "two files (f, then g)" && i == 2 {
						name = "g"
					}
					src := content
					if lname == "hash changes after part 0" && i > 0 {
						src = content2
					}
					meta = append(meta, map[string]interface{}{"n": name, "r": "", "p": "", "f": vh.MD5([]byte(src)), "t": "1293753600+5", "s": len(src), "b": p.b, "e": p.e})
					body += src[p.b:p.e]
				}
				mb, _ := json.Marshal(meta)
				hdrs := map[string]string{"X-STS-SrcName": "src", "X-STS-MetaLen": fmt.Sprint(len(mb)), "X-STS-Sep": "/"}
				status, h, _, err := r.doH(rawReq{Method: "PUT", Path: "/data?v=1", Headers: hdrs, Body: string(mb) + body[:cut]})
				if err != nil {
					return // the request itself broke: nothing was answered
				}
				claimed := -1
				switch status {
				case 200:
					claimed = len(parts)
				case 206:
					claimed, _ = strconv.Atoi(h.Get("X-STS-PartCount"))
				}
				// what the record says
				st2, listing, _ := r.do(rawReq{Method: "GET", Path: "/partials?v=1", Headers: map[string]string{"X-STS-SrcName": "src"}})
				var listed []*sts.Partial
				_ = json.Unmarshal([]byte(listing), &listed)
				onRecord := func(name string, b, e int) bool {
					for _, p := range listed {
						if p.Name != name {
							continue
						}
						for _, x := range p.Parts {
							if int(x.Beg) <= b && int(x.End) >= e {
								return true
							}
						}
					}
					return false
				}
				if lname == "hash changes after part 0" {
					// a range listed under a hash must have been sent under that hash, and a record that
					// mixes the two versions must not count as complete
					h1, h2 := vh.MD5([]byte(content)), vh.MD5([]byte(content2))
					for _, p := range listed {
						if p.Name != "f" {
							continue
						}
						for _, x := range p.Parts {
							sentAs := h2
							if x.Beg < 10 {
								sentAs = h1
							}
							if p.Hash != sentAs || (x.Beg < 10 && x.End > 10) {
								bad = fmt.Sprintf("layout %q, body cut after %d of 30 bytes: the receiver lists bytes %d:%d of f under hash %s, but they were sent as part of the version with hash %s; listing: %s", lname, cut, x.Beg, x.End, p.Hash, sentAs, listing)
								return
							}
						}
					}
					if cut == 30 {
						for _, ext := range []string{".full", ".wait"} {
							if _, err := os.Stat(filepath.Join(r.dirs.Stage, "src", "f"+ext)); err == nil {
								bad = fmt.Sprintf("layout %q: part 0 of one version and parts 1-2 of another were received, and the receiver treats f as complete (f%s exists); listing: %s", lname, ext, listing)
								return
							}
						}
					}
					return
				}
				for i := 0; i < claimed && i < len(parts); i++ {
					name := "f"
					if lname == "two files (f, then g)" && i == 2 {
						name = "g"
					}
					whole := (i+1)*10 <= cut // all bytes of this part were in the request
					if !whole || !(onRecord(name, parts[i].b, parts[i].e) || claimed == len(parts)) {
						bad = fmt.Sprintf("layout %q, body cut after %d of 30 bytes: the receiver answered %d with %d part(s) received, but part #%d (%s %d:%d) %s; partial listing (%d): %s",
							lname, cut, status, claimed, i, name, parts[i].b, parts[i].e,
							map[bool]string{true: "is not on its record of partial files", false: "never arrived completely"}[whole], st2, listing)
						return
					}
				}
				// the recovery request for the same parts must not claim more than the record holds either
				st3, h3, _, err3 := r.doH(rawReq{Method: "PUT", Path: "/data-recovery?v=1", Headers: map[string]string{"X-STS-SrcName": "src", "X-STS-Sep": "/"}, Body: string(mb)})
				if err3 == nil && (st3 == 200 || st3 == 206) {
					nrec, _ := strconv.Atoi(h3.Get("X-STS-PartCount"))
					for i := 0; i < nrec && i < len(parts); i++ {
						if (i+1)*10 > cut {
							bad = fmt.Sprintf("layout %q, body cut after %d of 30 bytes: the data-recovery request answers %d leading part(s) received, but part #%d never arrived completely", lname, cut, nrec, i)
							return
						}
					}
				}
			})
			rep.Executions++
			rep.States++
			rep.Transitions += 3
			rep.Nontrivial++
			rep.Outcome("checked")
			rep.Sample(map[string]interface{}{"layout": lname, "cut": cut}, 4)
			if bad != "" {
				rep.Violate("", bad, map[string]interface{}{"layout": lname, "cut": cut})
			}
		}
	}
	rep.Bound = "a data request of three 10-byte parts (one file in order; last part first; parts of two files; the file's hash changing after the first part) whose body ends after c bytes, for every c in 0..30, sent to the real receiver over the in-memory network; the 200 / 206 answer's part count and the count answered by the following data-recovery request are compared with what arrived and with the partial listing"
}
