//go:build verif

package main

import (
	"encoding/json"
	"fmt"
	"os"
	"path/filepath"
	"regexp"
	"strings"
	"testing"
	"time"

	"github.com/arm-doe/sts"
	"github.com/arm-doe/sts/internal/verif/vh"
	"github.com/arm-doe/sts/store"
)

// C19 (iii): the running sender applies each tag's settings to exactly the files whose
// names match that tag's pattern, and the default tag's to all others - observed on the
// real clientApp.init wiring (tagger used by the broker, FileTag list, store ignore list).

func TestC19Wiring(t *testing.T) {
	rep := vh.NewReport("C19", "tag look-up of the wired sender (exhaustive enumeration: tag lists x names x group-by)")
	defer rep.Write()
	pats := []string{`\.dat$`, `^d/`, `^abc`, `x`}
	names := []string{"abc.dat", "abc.txt", "d/x.dat", "d/y", "x/abc.dat", "plain", "a.b.c.dat", "d.dat", "abcd", "e/f/g.dat", "abc", "q.x"}
	groupBys := []string{"", `^([^\.]*)`, `^([^/]*)`, `^(.*)$`}
	var lists [][]string
	for i := range pats {
		lists = append(lists, []string{pats[i]})
		for j := range pats {
			if i != j {
				lists = append(lists, []string{pats[i], pats[j]})
			}
		}
	}
	root := vh.NewSandbox()
	defer vh.RemoveSandbox(root)
	_ = os.MkdirAll(filepath.Join(root, "out"), 0755)
	n := 0
	for _, gb := range groupBys {
		for _, list := range lists {
			n++
			if !vh.Mine(n) {
				continue
			}
			// default tag first (as in the README), then the pattern tags, each with its own settings
			tags := []*sts.TagConf{{Method: sts.MethodHTTP, Order: sts.OrderFIFO, Priority: 0, Delete: false}}
			for i, p := range list {
				tags = append(tags, &sts.TagConf{Pattern: regexp.MustCompile(p), Method: sts.MethodHTTP, Order: sts.OrderFIFO, Priority: i + 1, Delete: i%2 == 0})
			}
			conf := &sts.SourceConf{Name: "src", OutDir: filepath.Join(root, "out"), LogDir: filepath.Join(root, "logs"), Threads: 1,
				Target: &sts.TargetConf{Host: "recv:1992", Protocol: "http"}, Tags: tags}
			if gb != "" {
				conf.GroupBy = regexp.MustCompile(gb)
			}
			app := &clientApp{conf: conf, dirCache: filepath.Join(root, "cache")}
			if err := app.init(); err != nil {
				rep.Violate("", "clientApp.init failed: "+err.Error(), map[string]interface{}{"tags": list, "group_by": gb})
				continue
			}
			bc := app.broker.Conf
			for _, name := range names {
				rep.Executions++
				rep.States++
				rep.Transitions++
				rep.Nontrivial++
				if rep.Executions%211 == 1 {
					rep.Sample(map[string]interface{}{"tags": list, "group_by": gb, "name": name}, 4)
				}
				want := "" // the default tag
				for _, p := range list {
					if regexp.MustCompile(p).MatchString(name) {
						want = p
						break
					}
				}
				got := bc.Tagger(name)
				if got == want {
					rep.Outcome("tag by name")
					continue
				}
				// which tag would a match against the group give?
				group := ""
				if m := conf.GroupBy.FindStringSubmatch(name); len(m) > 1 {
					group = m[1]
				}
				byGroup := ""
				for _, p := range list {
					if regexp.MustCompile(p).MatchString(group) {
						byGroup = p
						break
					}
				}
				class := ""
				if group != "" && group != name && got == byGroup {
					class = "tag-pattern-matched-against-group"
				}
				var wantDel, gotDel bool
				for _, ft := range bc.Tags {
					if ft.Name == want {
						wantDel = ft.Delete
					}
					if ft.Name == got {
						gotDel = ft.Delete
					}
				}
				rep.Violate(class, fmt.Sprintf("tags %v, group-by %q: file %q matches the pattern of tag %q, but the sender applies tag %q to it (delete %v instead of %v); its group is %q",
					list, conf.GroupBy.String(), name, want, got, gotDel, wantDel, group), map[string]interface{}{"tags": list, "group_by": gb, "name": name})
			}
			app.destroy()
		}
	}
	rep.Bound = "every list of 1-2 tag patterns out of {\\.dat$, ^d/, ^abc, x} after the default tag, x 12 file names x group-by {default, ^([^\\.]*), ^([^/]*), ^(.*)$}; the real clientApp.init is run for each configuration and its tagger is asked for every name; reference: the first tag whose pattern matches the name, else the default tag"
}

// TestC19TwoSources: two sources of one configuration file run in one process (one clientApp
// each). The second inherits the first one's include / ignore lists; each has its own tag with a
// method other than http. Every sender must leave alone exactly the files of ITS OWN non-http
// tag - whatever the other sender's wiring does with the lists they share.
func TestC19TwoSources(t *testing.T) {
	rep := vh.NewReport("C19", "two sources sharing inherited pattern lists, wired in one process (enumeration of list lengths)")
	defer rep.Write()
	root := vh.NewSandbox()
	defer vh.RemoveSandbox(root)
	n := 0
	for nInc := 0; nInc <= 4; nInc++ {
		for nIgn := 1; nIgn <= 4; nIgn++ {
			n++
			if !vh.Mine(n) {
				continue
			}
			var inc, ign []string
			for i := 0; i < nInc; i++ {
				inc = append(inc, fmt.Sprintf(`"^inc%d|^t[01]/|^plain"`, i))
			}
			for i := 0; i < nIgn; i++ {
				ign = append(ign, fmt.Sprintf(`"\\.ign%d$"`, i))
			}
			out0, out1 := filepath.Join(root, fmt.Sprintf("o0-%d", n)), filepath.Join(root, fmt.Sprintf("o1-%d", n))
			_ = os.MkdirAll(out0, 0755)
			_ = os.MkdirAll(out1, 0755)
			text := fmt.Sprintf(`{"sources":[
 {"name":"s0","out-dir":%q,"log-dir":%q,"threads":1,"include":[%s],"ignore":[%s],"target":{"name":"t","http-host":"recv:1992"},
  "tags":[{"pattern":"DEFAULT","method":"http","order":"fifo"},{"pattern":"^t0/","method":"disk"}]},
 {"name":"s1","out-dir":%q,"log-dir":%q,
  "tags":[{"pattern":"DEFAULT","method":"http","order":"fifo"},{"pattern":"^t1/","method":"disk"}]}]}`,
				out0, filepath.Join(root, "l0"), strings.Join(inc, ","), strings.Join(ign, ","), out1, filepath.Join(root, "l1"))
			conf := &sts.ClientConf{}
			if err := json.Unmarshal([]byte(text), conf); err != nil {
				rep.Violate("", "the configuration does not parse: "+err.Error()+"\n"+text, map[string]int{"include": nInc, "ignore": nIgn})
				continue
			}
			var apps []*clientApp
			bad := ""
			for i, src := range conf.Sources {
				app := &clientApp{conf: src, dirCache: filepath.Join(root, fmt.Sprintf("cache%d-%d", i, n))}
				if err := app.init(); err != nil {
					bad = "clientApp.init failed: " + err.Error()
					break
				}
				apps = append(apps, app)
			}
			rep.Executions++
			rep.States++
			rep.Transitions += 2
			rep.Nontrivial++
			rep.Sample(map[string]int{"include": nInc, "ignore": nIgn}, 3)
			for i, app := range apps {
				if bad != "" {
					break
				}
				st, ok := app.broker.Conf.Store.(*store.Local)
				if !ok {
					bad = "the sender's store is not a store.Local"
					break
				}
				own, other := fmt.Sprintf("t%d/file.dat", i), fmt.Sprintf("t%d/file.dat", 1-i)
				if !st.ShouldIgnore(nameOnly(own)) {
					bad = fmt.Sprintf("source s%d (include %d / ignore %d patterns, lists inherited by s1): file %q matches its tag with method 'disk', but the sender's store does not leave it alone (ignore list: %v)", i, nInc, nIgn, own, st.Ignore)
				} else if st.ShouldIgnore(nameOnly(other)) {
					bad = fmt.Sprintf("source s%d (include %d / ignore %d patterns): file %q matches no ignore pattern and no non-http tag of THIS source, yet its store ignores it (ignore list: %v)", i, nInc, nIgn, other, st.Ignore)
				} else if st.ShouldIgnore(nameOnly("plain.dat")) {
					bad = fmt.Sprintf("source s%d: plain.dat is ignored (ignore list: %v)", i, st.Ignore)
				}
			}
			for _, app := range apps {
				app.destroy()
			}
			rep.Outcome("wired")
			if bad != "" {
				rep.Violate("", bad, map[string]int{"include": nInc, "ignore": nIgn})
			}
		}
	}
	rep.Bound = "configuration files with two sources, the first giving 0-4 include and 1-4 ignore patterns and a tag ^t0/ with method disk, the second inheriting both lists and carrying a tag ^t1/ with method disk; both are wired by the real clientApp.init in one process; each store must ignore exactly its own source's non-http files"
}

// nameOnly is an sts.File of which only the name matters.
type nameOnly string

func (n nameOnly) GetPath() string    { return string(n) }
func (n nameOnly) GetName() string    { return string(n) }
func (n nameOnly) GetSize() int64     { return 1 }
func (n nameOnly) GetTime() time.Time { return time.Time{} }
func (n nameOnly) GetMeta() []byte    { return nil }
