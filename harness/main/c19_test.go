//go:build verif

package main

import (
	"fmt"
	"os"
	"path/filepath"
	"regexp"
	"testing"

	"github.com/arm-doe/sts"
	"github.com/arm-doe/sts/internal/verif/vh"
)

// C19 (iii): the running sender applies each tag's settings to exactly the files whose
// names match that tag's pattern, and the default tag's to all others - observed on the
// real clientApp.init wiring (tagger used by the broker, FileTag list, store ignore list).

func TestC19Wiring(t *testing.T) {
	rep := vh.NewReport("C19", "tag look-up of the wired sender (exhaustive enumeration: tag lists x names x group-by)")
	defer rep.Write()
	pats := []string{`\.dat$`, `^d/`, `^abc`, `x`}
	names := []string{"abc.dat", "abc.txt", "d/x.dat", "d/y", "x/abc.dat", "plain", "a.b.c.dat", "d.dat", "abcd", "e/f/g.dat", "abc", "q.x"}
	groupBys := []string{"", `^([^\.]*)`, `^([^/]*)`, `^(.*)$`}
	var lists [][]string
	for i := range pats {
		lists = append(lists, []string{pats[i]})
		for j := range pats {
			if i != j {
				lists = append(lists, []string{pats[i], pats[j]})
			}
		}
	}
	root := vh.NewSandbox()
	defer vh.RemoveSandbox(root)
	_ = os.MkdirAll(filepath.Join(root, "out"), 0755)
	n := 0
	for _, gb := range groupBys {
		for _, list := range lists {
			n++
			if !vh.Mine(n) {
				continue
			}
			// default tag first (as in the README), then the pattern tags, each with its own settings
			tags := []*sts.TagConf{{Method: sts.MethodHTTP, Order: sts.OrderFIFO, Priority: 0, Delete: false}}
			for i, p := range list {
				tags = append(tags, &sts.TagConf{Pattern: regexp.MustCompile(p), Method: sts.MethodHTTP, Order: sts.OrderFIFO, Priority: i + 1, Delete: i%2 == 0})
			}
			conf := &sts.SourceConf{Name: "src", OutDir: filepath.Join(root, "out"), LogDir: filepath.Join(root, "logs"), Threads: 1,
				Target: &sts.TargetConf{Host: "recv:1992", Protocol: "http"}, Tags: tags}
			if gb != "" {
				conf.GroupBy = regexp.MustCompile(gb)
			}
			app := &clientApp{conf: conf, dirCache: filepath.Join(root, "cache")}
			if err := app.init(); err != nil {
				rep.Violate("", "clientApp.init failed: "+err.Error(), map[string]interface{}{"tags": list, "group_by": gb})
				continue
			}
			bc := app.broker.Conf
			for _, name := range names {
				rep.Executions++
				rep.States++
				rep.Transitions++
				rep.Nontrivial++
				if rep.Executions%211 == 1 {
					rep.Sample(map[string]interface{}{"tags": list, "group_by": gb, "name": name}, 4)
				}
				want := "" // the default tag
				for _, p := range list {
					if regexp.MustCompile(p).MatchString(name) {
						want = p
						break
					}
				}
				got := bc.Tagger(name)
				if got == want {
					rep.Outcome("tag by name")
					continue
				}
				// which tag would a match against the group give?
				group := ""
				if m := conf.GroupBy.FindStringSubmatch(name); len(m) > 1 {
					group = m[1]
				}
				byGroup := ""
				for _, p := range list {
					if regexp.MustCompile(p).MatchString(group) {
						byGroup = p
						break
					}
				}
				class := ""
				if group != "" && group != name && got == byGroup {
					class = "tag-pattern-matched-against-group"
				}
				var wantDel, gotDel bool
				for _, ft := range bc.Tags {
					if ft.Name == want {
						wantDel = ft.Delete
					}
					if ft.Name == got {
						gotDel = ft.Delete
					}
				}
				rep.Violate(class, fmt.Sprintf("tags %v, group-by %q: file %q matches the pattern of tag %q, but the sender applies tag %q to it (delete %v instead of %v); its group is %q",
					list, conf.GroupBy.String(), name, want, got, gotDel, wantDel, group), map[string]interface{}{"tags": list, "group_by": gb, "name": name})
			}
			app.destroy()
		}
	}
	rep.Bound = "every list of 1-2 tag patterns out of {\\.dat$, ^d/, ^abc, x} after the default tag, x 12 file names x group-by {default, ^([^\\.]*), ^([^/]*), ^(.*)$}; the real clientApp.init is run for each configuration and its tagger is asked for every name; reference: the first tag whose pattern matches the name, else the default tag"
}
