//go:build verif

package main

import (
	"encoding/json"
	"fmt"
	"os"
	"path/filepath"
	"strings"
	"testing"
	"testing/synctest"
	"time"

	"github.com/arm-doe/sts"
	"github.com/arm-doe/sts/internal/verif/vh"
)

// C14: requests cannot touch files outside the configured directories.

type c14Case struct {
	Field   string `json:"field"`
	Value   string `json:"value"`
	Allow   bool   `json:"allow_list"`
	Request rawReq `json:"request"`
}

const c14Canary = "CANARY-CONTENT-"

func c14Names() []string {
	frags := []string{"a", "..", ".", "", "%2e%2e", strings.Repeat("L", 300)}
	joins := []string{"/", "//", "\\", "|"}
	seen := map[string]bool{}
	var out []string
	add := func(s string) {
		if !seen[s] {
			seen[s] = true
			out = append(out, s)
		}
	}
	var rec func(parts []string)
	rec = func(parts []string) {
		if len(parts) > 0 {
			for _, j := range joins {
				add(strings.Join(parts, j))
				add(j + strings.Join(parts, j))
			}
		}
		if len(parts) == 3 {
			return
		}
		for _, f := range frags {
			if f == strings.Repeat("L", 300) && len(parts) > 0 {
				continue // the long fragment only on its own and first
			}
			rec(append(append([]string{}, parts...), f))
		}
	}
	rec(nil)
	add("/etc/passwd")
	add("../../canary-above")
	add("..\\..\\canary-above")
	add("a/../../other/secret")
	return out
}

// outside lists everything in the sandbox that does not belong to a source directory the
// request may use: with fixed = "src" only <root>/<kind>/src/**; otherwise any direct child
// directory of the four roots.
func c14Outside(sandbox, fixed string) string {
	var b strings.Builder
	for _, e := range vh.List(sandbox) {
		rel := e.Path
		inside := false
		for _, kind := range []string{"recv/stage/", "recv/final/", "recv/logs-in/", "recv/serve/"} {
			if strings.HasPrefix(rel, kind) {
				rest := strings.TrimPrefix(rel, kind)
				comp := strings.SplitN(rest, "/", 2)[0]
				if comp == ".." || comp == "." {
					continue
				}
				if fixed != "" && comp != fixed {
					continue
				}
				if fixed == "" && (comp == "other-src") {
					continue // another source's directory holds canaries
				}
				inside = true
			}
		}
		if inside {
			continue
		}
		if e.Dir {
			fmt.Fprintf(&b, "%s/\n", rel)
		} else {
			fmt.Fprintf(&b, "%s %d %s\n", rel, e.Size, e.MD5)
		}
	}
	return b.String()
}

func TestC14(t *testing.T) {
	rep := vh.NewReport("C14", "path-bearing fields of every route (exhaustive enumeration against the real server, differential oracle)")
	defer rep.Write()
	names := c14Names()
	fields := []string{"data-name", "data-rename", "data-prev", "data-rename-2nd-part", "data-prev-2nd-part", "data-name-before-clean-part", "data-name-nosep", "data-rename-nosep", "data-prev-nosep", "data-source", "recovery-name", "validate-name", "partials-source", "static-get-path", "static-delete-path", "static-get-source", "static-get-rawpath"}
	var rc c14Case
	replay := vh.ReplaySpec(&rc)
	n := 0
	for _, allow := range []bool{false, true} {
		for fi, field := range fields {
			n++
			if !replay && !vh.Mine(n) {
				continue
			}
			if replay && (rc.Field != field || rc.Allow != allow) {
				continue
			}
			_ = fi
			const batch = 120 // a fresh receiver and sandbox every so many requests keeps the listings small
			for b0 := 0; b0 < len(names); b0 += batch {
				names := names[b0:min(b0+batch, len(names))]
				synctest.Test(t, func(t *testing.T) {
					var sources []string
					if allow {
						sources = []string{"src"}
					}
					r := newRecvRig(sources, nil, func(root string, dirs *sts.ServerDirs) {
						now := time.Now()
						sb := filepath.Join(root, "sandbox")
						vh.WriteFileAt(filepath.Join(root, "canary-above"), []byte(c14Canary+"above"), now)
						vh.WriteFileAt(filepath.Join(sb, "canary"), []byte(c14Canary+"sandbox"), now)
						vh.WriteFileAt(filepath.Join(sb, "other", "secret"), []byte(c14Canary+"other"), now)
						vh.WriteFileAt(filepath.Join(sb, "recv", "canary"), []byte(c14Canary+"recv"), now)
						vh.WriteFileAt(filepath.Join(dirs.Stage, "canary"), []byte(c14Canary+"stage-root"), now)
						vh.WriteFileAt(filepath.Join(dirs.Final, "canary"), []byte(c14Canary+"final-root"), now)
						vh.WriteFileAt(filepath.Join(dirs.Serve, "canary"), []byte(c14Canary+"serve-root"), now)
						vh.WriteFileAt(filepath.Join(dirs.Final, "other-src", "delivered"), []byte(c14Canary+"other source final"), now)
						vh.WriteFileAt(filepath.Join(dirs.Stage, "other-src", "x.part"), []byte(c14Canary+"other source stage"), now)
						vh.WriteFileAt(filepath.Join(dirs.Serve, "other-src", "served"), []byte(c14Canary+"other source serve"), now)
						vh.WriteFileAt(filepath.Join(dirs.Serve, "src", "a"), []byte("served file of src"), now)
						_ = os.MkdirAll(filepath.Join(dirs.Stage, "src"), 0755)
					})
					defer r.close()
					sandbox := filepath.Join(r.root, "sandbox")
					seq := 0
					above := func() string { return vh.FileMD5(filepath.Join(r.root, "canary-above")) }
					for _, x := range names {
						q := rawReq{Headers: map[string]string{"X-STS-SrcName": "src", "X-STS-Sep": "/"}}
						fixed := "src"
						content := "payload bytes"
						switch field {
						case "data-rename-2nd-part", "data-prev-2nd-part":
						// one file in two parts; the first part is clean, the part that completes the file
						// carries the name under test
						seq++
						content = fmt.Sprintf("two part payload %d", seq)
						ren, prev := "", ""
						if field == "data-rename-2nd-part" {
							ren = x
						} else {
							prev = x
						}
						ml, body := dataBody2(fmt.Sprintf("t%d", seq), ren, prev, content)
						q.Method, q.Path, q.Body = "PUT", "/data?v=1", body
						q.Headers["X-STS-MetaLen"] = fmt.Sprint(ml)
						if strings.Contains(x, "|") {
							q.Headers["X-STS-Sep"] = "|"
						}
					case "data-name-before-clean-part":
						// two files in one request: the first part carries the name under test, the last one is clean
						seq++
						content = fmt.Sprintf("first of two %d", seq)
						ml, body := dataBody3(x, fmt.Sprintf("clean%d", seq), content)
						q.Method, q.Path, q.Body = "PUT", "/data?v=1", body
						q.Headers["X-STS-MetaLen"] = fmt.Sprint(ml)
						if strings.Contains(x, "|") {
							q.Headers["X-STS-Sep"] = "|"
						}
					case "data-name", "data-rename", "data-prev", "data-source", "data-name-nosep", "data-rename-nosep", "data-prev-nosep":
							// a fresh file every time: a repeated name + hash would be discarded as a duplicate
							seq++
							content = fmt.Sprintf("payload bytes %d", seq)
							name, ren, prev := fmt.Sprintf("f%d", seq), "", ""
							switch strings.TrimSuffix(field, "-nosep") {
							case "data-name":
								name = x
							case "data-rename":
								ren = x
							case "data-prev":
								prev = x
							case "data-source":
								q.Headers["X-STS-SrcName"] = x
								fixed = ""
							}
							ml, body := dataBody(name, ren, prev, content)
							q.Method, q.Path, q.Body = "PUT", "/data?v=1", body
							q.Headers["X-STS-MetaLen"] = fmt.Sprint(ml)
							if strings.Contains(x, "|") {
								q.Headers["X-STS-Sep"] = "|"
							}
							if strings.HasSuffix(field, "-nosep") {
								// a sender that names no separator: the receiver takes the names as they come
								delete(q.Headers, "X-STS-Sep")
							}
						case "recovery-name":
							_, body := dataBody(x, "", "", content)
							q.Method, q.Path, q.Body = "PUT", "/data-recovery?v=1", body[:len(body)-len(content)]
						case "validate-name":
							q.Method, q.Path = "POST", "/validate?v=1"
							q.Headers["Content-Type"] = "application/json"
							q.Body = fmt.Sprintf(`[{"n":%q,"t":1293753600}]`, x)
						case "partials-source":
							q.Method, q.Path = "GET", "/partials?v=1"
							q.Headers["X-STS-SrcName"] = x
							fixed = ""
						case "static-get-path", "static-delete-path":
							q.Method = map[string]string{"static-get-path": "GET", "static-delete-path": "DELETE"}[field]
							q.Path = "/static/" + strings.ReplaceAll(strings.ReplaceAll(strings.ReplaceAll(x, " ", "%20"), "\\", "%5C"), "|", "%7C")
						case "static-get-rawpath":
							q.Method = "GET"
							q.Path = "/static/" + strings.ReplaceAll(strings.ReplaceAll(strings.ReplaceAll(strings.ReplaceAll(x, "..", "%2e%2e"), "\\", "%5C"), "|", "%7C"), "/", "%2F")
						case "static-get-source":
							q.Method, q.Path = "GET", "/static/a"
							q.Headers["X-STS-SrcName"] = x
							fixed = ""
						}
						if strings.ContainsAny(q.Path, "\x00\n\r") {
							continue
						}
						if replay && x != rc.Value {
							continue
						}
						before := c14Outside(sandbox, fixed)
						beforeAll := vh.ListString(sandbox)
						aboveBefore := above()
						status, body, err := r.do(q)
						synctest.Wait()
						rep.Executions++
						rep.States++
						rep.Transitions++ // one request handled by the server
						if rep.Executions%1499 == 1 {
							rep.Sample(c14Case{Field: field, Value: x, Allow: allow, Request: q}, 6)
						}
						if strings.Contains(x, "..") {
							rep.Nontrivial++
						}
						rep.Outcome(fmt.Sprintf("%s status=%d", field, status))
						c := c14Case{Field: field, Value: x, Allow: allow, Request: q}
						desc := fmt.Sprintf("%s = %q (allow-list %v): %s %s -> %d", field, x, allow, q.Method, q.Path, status)
						if err != nil {
							continue // the client library refused to build / send it
						}
						if after := c14Outside(sandbox, fixed); after != before || above() != aboveBefore {
							rep.Violate(c14Class(field), fmt.Sprintf("%s: something outside the authorised source's directories was created, changed or deleted:\n--- before\n%s--- after\n%s", desc, before, after), c)
							// restore for the following cases
							continue
						}
						if strings.Contains(body, c14Canary) {
							rep.Violate(c14Class(field), fmt.Sprintf("%s: the answer discloses a file outside the authorised directories: %q", desc, body), c)
						}
						if status >= 400 && status != 404 {
							if afterAll := vh.ListString(sandbox); afterAll != beforeAll {
								rep.Violate(c14Class(field), fmt.Sprintf("%s: refused, but something changed:\n--- before\n%s--- after\n%s", desc, beforeAll, afterAll), c)
							}
						}
					}
				})
			}
		}
	}
	rep.Bound = fmt.Sprintf("%d names built from the fragments {a, .., ., empty, %%2e%%2e, a 300-character name} joined by /, //, \\ and a custom separator, with and without a leading separator, up to three fragments, placed in turn in: file name, rename target, predecessor and source of a data request (rename target and predecessor also on the second, completing part of a two-part file; the file name also on the first of two files of one request; all three also in a request that carries no separator header), file name of a data-recovery and of a poll request, source of a partials request, URL path (plain and percent-encoded) of static GET / DELETE, source of a static GET; receiver with and without a list of allowed sources; sandbox with canary files above, next to and inside the receiver's directories and in another source's directories", len(names))
}

// dataBody2: one file in two parts; only the second part carries the rename target / predecessor.
func dataBody2(name, renamed, prev, content string) (metaLen int, body string) {
	h := vh.MD5([]byte(content))
	half := len(content) / 2
	meta := []map[string]interface{}{
		{"n": name, "r": "", "p": "", "f": h, "t": "1293753600+5", "s": len(content), "b": 0, "e": half},
		{"n": name, "r": renamed, "p": prev, "f": h, "t": "1293753600+5", "s": len(content), "b": half, "e": len(content)},
	}
	b, _ := json.Marshal(meta)
	return len(b), string(b) + content
}

// dataBody3: two single-part files; the first one carries the name under test.
func dataBody3(name, cleanName, content string) (metaLen int, body string) {
	other := "clean " + content
	meta := []map[string]interface{}{
		{"n": name, "r": "", "p": "", "f": vh.MD5([]byte(content)), "t": "1293753600+5", "s": len(content), "b": 0, "e": len(content)},
		{"n": cleanName, "r": "", "p": "", "f": vh.MD5([]byte(other)), "t": "1293753600+5", "s": len(other), "b": 0, "e": len(other)},
	}
	b, _ := json.Marshal(meta)
	return len(b), string(b) + content + other
}

func c14Class(field string) string {
	switch field {
	case "data-name", "data-rename", "recovery-name", "data-name-before-clean-part":
		return "data-route-names-unconfined"
	case "data-source", "partials-source":
		return "source-name-dotdot"
	}
	return ""
}
