//go:build verif

package log

import (
	"fmt"
	"os"
	"path/filepath"
	"sort"
	"strings"
	"testing"
	"testing/synctest"
	"time"

	"github.com/arm-doe/sts/internal/verif/vh"
)

func init() {
	InitExternal(vh.NullLogger{})
}

// C18: transfer logs answer "was this file sent/received" exactly.

type c18Action struct {
	Op     string `json:"op"` // recv | sent | eod | tick | day | eom
	Name   string `json:"name,omitempty"`
	Hash   string `json:"hash,omitempty"`
	Rename string `json:"rename,omitempty"`
}

type c18Rec struct {
	kind   string
	name   string
	rename string
	hash   string
	size   int64
	t      time.Time
}

func (r c18Rec) GetName() string    { return r.name }
func (r c18Rec) GetRenamed() string { return r.rename }
func (r c18Rec) GetSize() int64     { return r.size }
func (r c18Rec) GetHash() string    { return r.hash }
func (r c18Rec) TimeMs() int64      { return 7 }

func dayOf(t time.Time) string { return t.Format("20060102") }

// daysTouched lists the calendar days the closed interval between a and b touches,
// widened by `slack` days on both sides.
func daysTouched(a, b time.Time, slack int) map[string]bool {
	if b.Before(a) {
		a, b = b, a
	}
	out := map[string]bool{}
	d := time.Date(a.Year(), a.Month(), a.Day(), 0, 0, 0, 0, a.Location()).AddDate(0, 0, -slack)
	end := time.Date(b.Year(), b.Month(), b.Day(), 0, 0, 0, 0, b.Location()).AddDate(0, 0, slack)
	for ; !d.After(end); d = d.AddDate(0, 0, 1) {
		out[dayOf(d)] = true
	}
	return out
}

var c18Names = []string{"a", "ab", "b/a", "a.x", "a:b"}

type c18Result struct {
	vh.HistResult
}

func c18Run(hist []c18Action, queries bool) (res vh.HistResult) {
	synctest.Test(c18T, func(t *testing.T) { res = c18RunIn(hist, queries) })
	return
}

var c18T *testing.T
var c18Seen = map[string]bool{}

func c18RunIn(hist []c18Action, queries bool) vh.HistResult {
	dir := vh.NewSandbox()
	defer vh.RemoveSandbox(dir)
	in := NewFileIO(filepath.Join(dir, "in"), nil, nil, true)
	out := NewFileIO(filepath.Join(dir, "out"), nil, nil, false)
	defer in.VerifClose()
	defer out.VerifClose()
	res := vh.HistResult{Enabled: true}
	// start two days before a month boundary so that day, month and (for the
	// thorough tier's longer histories) window arithmetic stay within a few day files
	time.Sleep(time.Date(2000, 1, 30, 12, 0, 0, 0, time.UTC).Sub(time.Now()))
	t0 := time.Now()
	var recs []c18Rec
	colon := false
	for _, a := range hist {
		now := time.Now()
		switch a.Op {
		case "recv", "sent":
			r := c18Rec{kind: a.Op, name: a.Name, rename: a.Rename, hash: a.Hash, size: int64(len(a.Name) + 10), t: now}
			if a.Op == "recv" {
				in.Received(r)
			} else {
				out.Sent(r)
			}
			recs = append(recs, r)
			if strings.Contains(a.Name, ":") || strings.Contains(a.Rename, ":") {
				colon = true
			}
		case "eod": // to 23:59:59 of the current day
			eod := time.Date(now.Year(), now.Month(), now.Day(), 23, 59, 59, 0, now.Location())
			if !eod.After(now) {
				res.Enabled = false
				return res
			}
			time.Sleep(eod.Sub(now))
		case "tick":
			time.Sleep(2 * time.Second)
		case "day":
			time.Sleep(24 * time.Hour)
		case "month": // to the same time on the next date with the same day of the month (a source quiet for a month or two)
			t := now.AddDate(0, 0, 1)
			for t.Day() != now.Day() {
				t = t.AddDate(0, 0, 1)
			}
			time.Sleep(t.Sub(now))
		case "eom": // to 23:59:59 of the last day of the month
			eom := time.Date(now.Year(), now.Month()+1, 1, 0, 0, 0, 0, now.Location()).Add(-time.Second)
			if !eom.After(now) {
				res.Enabled = false
				return res
			}
			time.Sleep(eom.Sub(now))
		}
	}
	now := time.Now()
	res.Digest = vh.Digest(vh.ListString(dir), now.Format(time.RFC3339))
	if !queries || c18Seen[res.Digest] {
		return res
	}
	// ---- queries (a state whose queries all passed is not queried again; a failing one is, so
	// that the engine's re-runs of a violating history reproduce it)
	type window struct {
		label         string
		after, before time.Time
		qa, qb        time.Time // what is passed (zero allowed)
	}
	early := t0.Add(-time.Hour)
	windows := []window{
		{"same-day", now.Add(-time.Hour), now, now.Add(-time.Hour), now},
		{"across-midnight", now.Add(-26 * time.Hour), now, now.Add(-26 * time.Hour), now},
		{"whole-history", early, now, early, now},
		{"reversed", now, early, now, early},
		{"zero-before", early, now, early, time.Time{}},
		{"first-day-only", early, t0.Add(time.Minute), early, t0.Add(time.Minute)},
	}
	for _, a := range hist {
		if a.Op == "month" {
			// two months of (mostly missing) day files: the windows that span the whole history would
			// dominate the run time; the day-sized windows are the ones a stale day file shows up in
			windows = []window{windows[0], windows[1], windows[5]}
			break
		}
	}
	outcomes := map[string]bool{}
	for _, kind := range []string{"recv", "sent"} {
		for _, name := range c18Names {
			if kind == "sent" && name != "a" && name != "ab" {
				continue
			}
			for _, hash := range []string{"", "h1", "h2"} {
				for _, w := range windows {
					var got bool
					if kind == "recv" {
						got = in.WasReceived(name, hash, w.qa, w.qb)
					} else {
						got = out.WasSent(name, hash, w.qa, w.qb)
					}
					must, may := false, false
					strict := daysTouched(w.after, w.before, 0)
					loose := daysTouched(w.after, w.before, 1)
					for _, r := range recs {
						if r.kind != kind || r.name != name || (hash != "" && r.hash != hash) {
							continue
						}
						if strict[dayOf(r.t)] {
							must = true
						}
						if loose[dayOf(r.t)] {
							may = true
						}
					}
					outcomes[fmt.Sprintf("%s got=%v must=%v", w.label, got, must)] = true
					if must && !got {
						res.Viol = fmt.Sprintf("%s log: look-up of name %q hash %q in window %s [%s .. %s] answered NO although a record of exactly that name%s was written on a day the window touches; records: %s",
							kind, name, hash, w.label, w.after.Format("2006-01-02T15:04:05"), w.before.Format("2006-01-02T15:04:05"), hashNote(hash), c18Recs(recs, kind))
						res.Class = c18Class(name, recs, kind, colon, "false-negative")
						return res
					}
					if got && !may {
						res.Viol = fmt.Sprintf("%s log: look-up of name %q hash %q in window %s [%s .. %s] answered YES although no record of exactly that name%s exists on any day the search may visit; records: %s",
							kind, name, hash, w.label, w.after.Format("2006-01-02T15:04:05"), w.before.Format("2006-01-02T15:04:05"), hashNote(hash), c18Recs(recs, kind))
						res.Class = c18Class(name, recs, kind, colon, "false-positive")
						return res
					}
				}
			}
		}
	}
	// ---- Parse round trip of the receive log
	var parsed []string
	in.Parse(func(name, renamed, hash string, size int64, t time.Time) bool {
		parsed = append(parsed, fmt.Sprintf("%s|%s|%s|%d|%d", name, renamed, hash, size, t.Unix()))
		return false
	}, early, now.Add(time.Hour))
	var want []string
	for _, r := range recs {
		if r.kind == "recv" {
			want = append(want, fmt.Sprintf("%s|%s|%s|%d|%d", r.name, r.rename, r.hash, r.size, r.t.Unix()))
		}
	}
	sort.Strings(parsed)
	sort.Strings(want)
	// every record written must come back (the iteration may visit a day twice? no: compare as sets with multiplicity >=)
	if msg := c18Missing(want, parsed); msg != "" {
		res.Viol = "receive log replay: " + msg + fmt.Sprintf(" (written %v, parsed %v)", want, parsed)
		if colon {
			res.Class = "log-colon-in-name"
		}
		return res
	}
	var keys []string
	for k := range outcomes {
		keys = append(keys, k)
	}
	sort.Strings(keys)
	res.Outcome = fmt.Sprintf("%d query outcome classes", len(keys))
	c18Seen[res.Digest] = true
	return res
}

func hashNote(h string) string {
	if h == "" {
		return ""
	}
	return " and hash"
}

func c18Recs(recs []c18Rec, kind string) string {
	var s []string
	for _, r := range recs {
		if r.kind == kind {
			s = append(s, fmt.Sprintf("%s:%s:%s@%s", r.name, r.rename, r.hash, r.t.Format("01-02T15:04:05")))
		}
	}
	return strings.Join(s, " ")
}

func c18Missing(want, got []string) string {
	cnt := map[string]int{}
	for _, g := range got {
		cnt[g]++
	}
	for _, w := range want {
		if cnt[w] == 0 {
			return fmt.Sprintf("record %q was written but is not reproduced", w)
		}
		cnt[w]--
	}
	return ""
}

// c18Class names the known-finding class a failing look-up belongs to.
func c18Class(name string, recs []c18Rec, kind string, colon bool, dir string) string {
	// The recorded finding is about answers that are wrong BECAUSE a ':' inside a name is taken for
	// a field separator: a YES for name N owed to a record of 'N:...', or a hash / rename field
	// read at the wrong position. An exact record of a ':' name that is simply not found (with no
	// hash asked for) is not part of it.
	if strings.Contains(name, ":") && dir == "false-negative" {
		return "log-colon-in-name:false-negative" // not a recorded class: reported
	}
	if strings.Contains(name, ":") {
		return "log-colon-in-name"
	}
	for _, r := range recs {
		if r.kind == kind && r.name != name && strings.Contains(r.name, ":") && strings.HasPrefix(r.name, name+":") {
			return "log-colon-in-name"
		}
	}
	return ""
}

func c18Alphabet(maxWrites, maxClock int, names []string) func(hist []c18Action) []c18Action {
	return func(hist []c18Action) []c18Action {
		w, c := 0, 0
		for _, a := range hist {
			if a.Op == "recv" || a.Op == "sent" {
				w++
			} else {
				c++
			}
		}
		var out []c18Action
		if w < maxWrites {
			for _, n := range names {
				for _, h := range []string{"h1", "h2"} {
					out = append(out, c18Action{Op: "recv", Name: n, Hash: h})
				}
			}
			out = append(out, c18Action{Op: "recv", Name: "a", Hash: "h1", Rename: "ab"})
			out = append(out, c18Action{Op: "sent", Name: "a", Hash: "h1"}, c18Action{Op: "sent", Name: "ab", Hash: "h2"})
		}
		if c < maxClock {
			out = append(out, c18Action{Op: "eod"}, c18Action{Op: "tick"}, c18Action{Op: "day"}, c18Action{Op: "eom"}, c18Action{Op: "month"})
		}
		return out
	}
}

func TestC18(t *testing.T) {
	c18T = t
	if tz := os.Getenv("VERIF_TZ"); tz != "" {
		// the same histories with the process in another time zone: day files are named after the
		// local date, callers pass windows in whatever zone their time values carry
		loc, err := time.LoadLocation(tz)
		if err != nil {
			t.Fatal(err)
		}
		time.Local = loc
	} else {
		os.Setenv("TZ", "UTC")
	}
	name := "log look-ups and replay over write/clock histories"
	if tz := os.Getenv("VERIF_TZ"); tz != "" {
		name += " (process time zone " + tz + ")"
	}
	rep := vh.NewReport("C18", name)
	defer rep.Write()
	var rc []c18Action
	if vh.ReplaySpec(&rc) {
		r := c18Run(rc, true)
		rep.Executions = 1
		if r.Viol != "" {
			rep.Violate(r.Class, r.Viol, rc)
		}
		return
	}
	maxW, maxC, depth := 3, 2, 5
	names := []string{"a", "ab", "b/a", "a:b"}
	if vh.Thorough() {
		maxW, maxC, depth = 4, 3, 6
		names = c18Names
	} else if os.Getenv("VERIF_TZ") != "" {
		maxW, maxC, depth = 2, 2, 4 // the quick tier's second pass (another time zone) is a smaller one
		names = []string{"a", "b/a"}
	}
	h := &vh.Hist[c18Action]{
		Rep:        rep,
		Alphabet:   c18Alphabet(maxW, maxC, names),
		Run:        func(hist []c18Action) vh.HistResult { return c18Run(hist, true) },
		MaxDepth:   depth,
		ShardDepth: 2,
		NonTrivial: func(hist []c18Action, r vh.HistResult) bool {
			names := map[string]bool{}
			for _, a := range hist {
				if a.Name != "" {
					names[a.Name] = true
				}
			}
			return len(names) >= 2
		},
	}
	h.Explore()
	rep.Bound = fmt.Sprintf("all histories of <=%d writes and <=%d clock moves (to 23:59:59, +2 s, +24 h, to month end, to the same day of the month one or two months on), length <=%d; names %v, 2 hashes, with/without rename; in each distinct state: 2 logs x 5 names x {no hash,h1,h2} x 6 windows (3 day-sized windows after a month move) + Parse", maxW, maxC, depth, names)
}

// TestC18Replay: replaying a receive log of n records, for every n up to a bound that makes a
// day file several times larger than any read buffer, spread over one or two days. The handler
// KEEPS what it is given (as stage.buildCache does) and the comparison happens after Parse has
// returned: every record comes back with the name, rename, hash, size and time it was written with.
func TestC18Replay(t *testing.T) {
	c18T = t
	os.Setenv("TZ", "UTC")
	rep := vh.NewReport("C18", "receive-log replay of 1..N records, handler keeps its arguments (exhaustive enumeration)")
	defer rep.Write()
	maxN := 140
	if vh.Thorough() {
		maxN = 1500 // > 64 KiB per day file
	}
	type spec struct {
		N    int `json:"records"`
		Days int `json:"days"`
	}
	var rc spec
	replay := vh.ReplaySpec(&rc)
	k := 0
	for days := 1; days <= 2; days++ {
		for n := 1; n <= maxN; n++ {
			if vh.Thorough() && n > 200 && n%97 != 0 {
				continue // beyond 200 records every 97th count
			}
			k++
			if replay && (rc.N != n || rc.Days != days) {
				continue
			}
			if !replay && !vh.Mine(k) {
				continue
			}
			viol := ""
			synctest.Test(t, func(t *testing.T) {
				dir := vh.NewSandbox()
				defer vh.RemoveSandbox(dir)
				in := NewFileIO(filepath.Join(dir, "in"), nil, nil, true)
				defer in.VerifClose()
				time.Sleep(time.Date(2000, 1, 30, 12, 0, 0, 0, time.UTC).Sub(time.Now()))
				early := time.Now().Add(-time.Hour)
				type rec struct {
					name, renamed, hash string
					size                int64
					t                   int64
				}
				var want []rec
				for i := 0; i < n; i++ {
					if days == 2 && i == n/2 {
						time.Sleep(24 * time.Hour)
					}
					r := c18Rec{kind: "recv", name: fmt.Sprintf("site/inst-%03d/data.%03d.nc", i, i), hash: vh.MD5([]byte(fmt.Sprint("content ", i))), size: int64(1000 + i), t: time.Now()}
					if i%3 == 1 {
						r.rename = fmt.Sprintf("renamed/%d.nc", i)
					}
					if i%3 == 2 {
						r.rename = r.name // a target name equal to the name is a rename like any other: it comes back as written
					}
					in.Received(r)
					want = append(want, rec{r.name, r.rename, r.hash, r.size, r.t.Unix()})
					time.Sleep(time.Second)
				}
				var got []rec
				in.Parse(func(name, renamed, hash string, size int64, t time.Time) bool {
					got = append(got, rec{name, renamed, hash, size, t.Unix()}) // kept as given, looked at later
					return false
				}, early, time.Now().Add(time.Hour))
				if len(got) != len(want) {
					viol = fmt.Sprintf("%d records written over %d day(s), the replay yields %d", n, days, len(got))
					return
				}
				for i := range want {
					if got[i] != want[i] {
						viol = fmt.Sprintf("%d records written over %d day(s): record %d was written as %v, the replay yielded %v (looked at after Parse returned, as stage.buildCache does)", n, days, i, want[i], got[i])
						return
					}
				}
			})
			rep.Executions++
			rep.States++
			rep.Transitions++
			if n > 1 {
				rep.Nontrivial++
			}
			rep.Outcome(fmt.Sprintf("days=%d", days))
			if viol != "" {
				rep.Violate("", "receive log replay: "+viol, spec{N: n, Days: days})
			}
		}
	}
	rep.Bound = fmt.Sprintf("every record count 1..%d (thorough: beyond 200 every 97th up to 1500, > 64 KiB per day file) on one day and split over two days; one record per second; every third record with a rename, every third with a rename equal to its name; handler keeps its string arguments and they are compared after Parse returned", maxN)
}
