//go:build verif

package log

// VerifClose ends the writer goroutine of a FileIO and closes its file handle so
// that a synctest bubble can end and file descriptors do not leak (harness only).
func (f *FileIO) VerifClose() {
	close(f.logCh)
	f.logger.close()
}
