//go:build verif

package sts

import (
	"encoding/json"
	"fmt"
	"sort"
	"strings"
	"testing"

	"github.com/arm-doe/sts/internal/verif/vh"
	yaml "gopkg.in/yaml.v2"
)

// C19: configuration means what it says, also after inheritance and re-encoding.

type c19Field struct {
	key  string
	a, b interface{} // two different non-zero values (for booleans: true / false)
	get  func(*SourceConf) string
	bool bool
}

func res(rs interface{}) string {
	return fmt.Sprint(rs)
}

func c19SourceFields() []c19Field {
	return []c19Field{
		{"out-dir", "/o1", "/o2", func(s *SourceConf) string { return s.OutDir }, false},
		{"log-dir", "/l1", "/l2", func(s *SourceConf) string { return s.LogDir }, false},
		{"threads", 3, 5, func(s *SourceConf) string { return fmt.Sprint(s.Threads) }, false},
		{"cache-age", "10m", "20m", func(s *SourceConf) string { return s.CacheAge.String() }, false},
		{"min-age", "11s", "21s", func(s *SourceConf) string { return s.MinAge.String() }, false},
		{"max-age", "12h", "22h", func(s *SourceConf) string { return s.MaxAge.String() }, false},
		{"scan-delay", "13s", "23s", func(s *SourceConf) string { return s.ScanDelay.String() }, false},
		{"timeout", "14m", "24m", func(s *SourceConf) string { return s.Timeout.String() }, false},
		{"compress", 4, 6, func(s *SourceConf) string { return fmt.Sprint(s.Compression) }, false},
		{"stat-interval", "15m", "25m", func(s *SourceConf) string { return s.StatInterval.String() }, false},
		{"poll-delay", "16s", "26s", func(s *SourceConf) string { return s.PollDelay.String() }, false},
		{"poll-interval", "17s", "27s", func(s *SourceConf) string { return s.PollInterval.String() }, false},
		{"poll-attempts", 7, 9, func(s *SourceConf) string { return fmt.Sprint(s.PollAttempts) }, false},
		{"poll-max-count", 70, 90, func(s *SourceConf) string { return fmt.Sprint(s.PollMaxCount) }, false},
		{"bin-size", "1MiB", "2MiB", func(s *SourceConf) string { return fmt.Sprint(int64(s.BinSize)) }, false},
		{"stat-payload", "true", "false", func(s *SourceConf) string { return fmt.Sprint(s.StatPayload) }, true},
		{"group-by", "^(a)", "^(b)", func(s *SourceConf) string {
			if s.GroupBy == nil {
				return ""
			}
			return s.GroupBy.String()
		}, false},
		{"include-hidden", "true", "false", func(s *SourceConf) string { return fmt.Sprint(s.IncludeHidden) }, true},
		{"include", []interface{}{"inc1"}, []interface{}{"inc2", "inc3"}, func(s *SourceConf) string { return res(s.Include) }, false},
		{"ignore", []interface{}{"ign1"}, []interface{}{"ign2"}, func(s *SourceConf) string { return res(s.Ignore) }, false},
		{"error-backoff", "2.5", "3.5", func(s *SourceConf) string { return fmt.Sprint(s.ErrorBackoff) }, false},
		{"target.http-host", "h1:1", "h2:2", func(s *SourceConf) string {
			if s.Target == nil {
				return ""
			}
			return s.Target.Host
		}, false},
		{"target.key", "k1", "k2", func(s *SourceConf) string {
			if s.Target == nil {
				return ""
			}
			return s.Target.Key
		}, false},
	}
}

type c19TagField struct {
	key  string
	a, b interface{}
	get  func(*TagConf) string
	bool bool
}

func c19TagFields() []c19TagField {
	return []c19TagField{
		{"priority", 2, 3, func(t *TagConf) string { return fmt.Sprint(t.Priority) }, false},
		{"method", "http", "disk", func(t *TagConf) string { return t.Method }, false},
		{"order", "fifo", "none", func(t *TagConf) string { return t.Order }, false},
		{"chunk-size", "1KiB", "2KiB", func(t *TagConf) string { return fmt.Sprint(int64(t.ChunkSize)) }, false},
		{"delete", "true", "false", func(t *TagConf) string { return fmt.Sprint(t.Delete) }, true},
		{"last-delay", "30s", "40s", func(t *TagConf) string { return t.LastDelay.String() }, false},
		{"delete-delay", "50s", "60s", func(t *TagConf) string { return t.DeleteDelay.String() }, false},
	}
}

// set places value v at a dotted key of a document.
func c19Set(doc map[string]interface{}, key string, v interface{}) {
	if i := strings.Index(key, "."); i >= 0 {
		sub, _ := doc[key[:i]].(map[string]interface{})
		if sub == nil {
			sub = map[string]interface{}{}
			doc[key[:i]] = sub
		}
		sub[key[i+1:]] = v
		return
	}
	doc[key] = v
}

func toYAML(v interface{}, indent string) string {
	switch x := v.(type) {
	case map[string]interface{}:
		keys := make([]string, 0, len(x))
		for k := range x {
			keys = append(keys, k)
		}
		sort.Strings(keys)
		var b strings.Builder
		for _, k := range keys {
			if l, ok := x[k].([]interface{}); ok && len(l) == 0 {
				fmt.Fprintf(&b, "%s%s: []\n", indent, k) // an explicitly empty list
				continue
			}
			switch x[k].(type) {
			case map[string]interface{}, []interface{}:
				fmt.Fprintf(&b, "%s%s:\n%s", indent, k, toYAML(x[k], indent+"  "))
			default:
				fmt.Fprintf(&b, "%s%s: %s\n", indent, k, yamlScalar(x[k]))
			}
		}
		return b.String()
	case []interface{}:
		var b strings.Builder
		for _, e := range x {
			switch e.(type) {
			case map[string]interface{}:
				s := toYAML(e, indent+"  ")
				fmt.Fprintf(&b, "%s- %s", indent, strings.TrimPrefix(s, indent+"  "))
			default:
				fmt.Fprintf(&b, "%s- %s\n", indent, yamlScalar(e))
			}
		}
		return b.String()
	}
	return indent + yamlScalar(v) + "\n"
}

func yamlScalar(v interface{}) string {
	switch x := v.(type) {
	case string:
		if x == "true" || x == "false" {
			return x // a YAML boolean, as a user writes it
		}
		return fmt.Sprintf("%q", x)
	}
	return fmt.Sprint(v)
}

type c19Doc struct {
	Sources []map[string]interface{} `json:"sources"`
	Format  string                   `json:"format"`
}

func c19Parse(doc c19Doc) (*ClientConf, string, error) {
	var srcs []interface{}
	for _, s := range doc.Sources {
		srcs = append(srcs, s)
	}
	top := map[string]interface{}{"sources": srcs}
	conf := &ClientConf{}
	if doc.Format == "yaml" {
		text := toYAML(top, "")
		return conf, text, yaml.Unmarshal([]byte(text), conf)
	}
	b, _ := json.Marshal(top)
	return conf, string(b), json.Unmarshal(b, conf)
}

// effective renders every option of every source and tag.
func c19Effective(conf *ClientConf) []string {
	var out []string
	for i, s := range conf.Sources {
		for _, f := range c19SourceFields() {
			out = append(out, fmt.Sprintf("source[%d].%s=%s", i, f.key, f.get(s)))
		}
		for j, t := range s.Tags {
			p := ""
			if t.Pattern != nil {
				p = t.Pattern.String()
			}
			out = append(out, fmt.Sprintf("source[%d].tag[%d].pattern=%s", i, j, p))
			for _, f := range c19TagFields() {
				out = append(out, fmt.Sprintf("source[%d].tag[%d].%s=%s", i, j, f.key, f.get(t)))
			}
		}
	}
	return out
}

func c19Check(rep *vh.Report, doc c19Doc, expect map[string]string, what string) {
	rep.Executions++
	rep.States++
	rep.Transitions += 2 // parse, and re-encode + parse
	rep.Nontrivial++
	if rep.Executions%97 == 1 {
		rep.Sample(doc, 4)
	}
	conf, text, err := c19Parse(doc)
	if err != nil {
		rep.Violate("", fmt.Sprintf("%s: the document does not parse: %v\n%s", what, err, text), doc)
		return
	}
	eff := c19Effective(conf)
	got := map[string]string{}
	for _, e := range eff {
		kv := strings.SplitN(e, "=", 2)
		got[kv[0]] = kv[1]
	}
	keys := make([]string, 0, len(expect))
	for k := range expect {
		keys = append(keys, k)
	}
	sort.Strings(keys)
	for _, k := range keys {
		if got[k] != expect[k] {
			rep.Violate(c19Class(k, expect[k], got[k]), fmt.Sprintf("%s (%s): effective %s is %q, the document says %q\n%s", what, doc.Format, k, got[k], expect[k], text), doc)
			return
		}
	}
	// encode the parsed configuration to JSON and parse it again (server -> managed client)
	b, err := json.Marshal(conf)
	if err != nil {
		rep.Violate("", what+": json.Marshal of the parsed configuration failed: "+err.Error(), doc)
		return
	}
	// encoding is a read-only operation: the configuration in memory means the same afterwards
	effAfter := c19Effective(conf)
	for i := range eff {
		if i >= len(effAfter) || eff[i] != effAfter[i] {
			rep.Violate("", fmt.Sprintf("%s (%s): json.Marshal changed the configuration in memory: %s became %s\n%s", what, doc.Format, eff[i], effAfter[i], text), doc)
			return
		}
	}
	conf2 := &ClientConf{}
	if err := json.Unmarshal(b, conf2); err != nil {
		rep.Violate("", fmt.Sprintf("%s: the re-encoded configuration does not parse: %v\n%s", what, err, b), doc)
		return
	}
	eff2 := c19Effective(conf2)
	for i := range eff {
		if i >= len(eff2) || eff[i] != eff2[i] {
			e2 := ""
			if i < len(eff2) {
				e2 = eff2[i]
			}
			rep.Violate(c19Class(eff[i], "", ""), fmt.Sprintf("%s (%s): after parse -> JSON -> parse: %s became %s\noriginal: %s\nre-encoded: %s", what, doc.Format, eff[i], e2, text, b), doc)
			return
		}
	}
	rep.Outcome("ok " + doc.Format)
}

func c19Class(key, want, got string) string {
	return ""
}

func TestC19(t *testing.T) {
	rep := vh.NewReport("C19", "inheritance and re-encoding of generated configurations (exhaustive enumeration)")
	defer rep.Write()
	var rc c19Doc
	if vh.ReplaySpec(&rc) {
		t.Skip("replay: re-run the check; cases are cheap")
	}
	sf := c19SourceFields()
	tf := c19TagFields()
	zero := func(f c19Field) string { s := &SourceConf{}; return f.get(s) }
	str := func(f c19Field, v interface{}) string {
		// what the option reads back as when v is written
		doc := map[string]interface{}{"name": "x"}
		c19Set(doc, f.key, v)
		conf, _, err := c19Parse(c19Doc{Sources: []map[string]interface{}{doc}, Format: "json"})
		if err != nil || len(conf.Sources) != 1 {
			return "?"
		}
		return f.get(conf.Sources[0])
	}
	n := 0
	for _, format := range []string{"json", "yaml"} {
		// ---- sources: base source all-absent / all-A; second source varies one field against rest all-absent / all-B; third source empty
		for _, base := range []string{"absent", "A"} {
			for _, rest := range []string{"absent", "B"} {
				for fi, f := range sf {
					choices := []interface{}{nil, f.b}
					if f.bool {
						choices = []interface{}{nil, "true", "false"}
					}
					for _, ch := range choices {
						n++
						if !vh.Mine(n) {
							continue
						}
						s0 := map[string]interface{}{"name": "s0"}
						s1 := map[string]interface{}{"name": "s1"}
						s2 := map[string]interface{}{"name": "s2"}
						expect := map[string]string{}
						for gi, g := range sf {
							e0 := zero(g)
							if base == "A" {
								c19Set(s0, g.key, g.a)
								e0 = str(g, g.a)
							}
							e1 := e0
							var v1 interface{}
							if gi == fi {
								v1 = ch
							} else if rest == "B" {
								v1 = g.b
							}
							if v1 != nil {
								c19Set(s1, g.key, v1)
								e1 = str(g, v1)
							}
							expect[fmt.Sprintf("source[0].%s", g.key)] = e0
							expect[fmt.Sprintf("source[1].%s", g.key)] = e1
							expect[fmt.Sprintf("source[2].%s", g.key)] = e1
						}
						c19Check(rep, c19Doc{Sources: []map[string]interface{}{s0, s1, s2}, Format: format},
							expect, fmt.Sprintf("source option %s = %v in the 2nd source (1st source: all %s, other options of the 2nd: all %s)", f.key, ch, base, rest))
					}
				}
			}
		}
		// ---- tags: default tag minimal / all-A; second tag varies one field against rest absent / B; a second source inherits the tag list
		for _, base := range []string{"absent", "A"} {
			for _, rest := range []string{"absent", "B"} {
				for fi, f := range tf {
					choices := []interface{}{nil, f.b}
					if f.bool {
						choices = []interface{}{nil, "true", "false"}
					}
					for _, ch := range choices {
						n++
						if !vh.Mine(n) {
							continue
						}
						t0 := map[string]interface{}{"pattern": "DEFAULT"}
						t1 := map[string]interface{}{"pattern": `\.dat$`}
						expect := map[string]string{}
						tagStr := func(g c19TagField, v interface{}) string {
							tc := &TagConf{}
							b, _ := json.Marshal(map[string]interface{}{g.key: v})
							_ = json.Unmarshal(b, tc)
							return g.get(tc)
						}
						for gi, g := range tf {
							e0 := g.get(&TagConf{})
							if base == "A" {
								t0[g.key] = g.a
								e0 = tagStr(g, g.a)
							}
							e1 := e0
							var v1 interface{}
							if gi == fi {
								v1 = ch
							} else if rest == "B" {
								v1 = g.b
							}
							if v1 != nil {
								t1[g.key] = v1
								e1 = tagStr(g, v1)
							}
							for si := 0; si < 2; si++ {
								expect[fmt.Sprintf("source[%d].tag[0].%s", si, g.key)] = e0
								expect[fmt.Sprintf("source[%d].tag[1].%s", si, g.key)] = e1
							}
						}
						s0 := map[string]interface{}{"name": "s0", "tags": []interface{}{t0, t1}}
						s1 := map[string]interface{}{"name": "s1"}
						c19Check(rep, c19Doc{Sources: []map[string]interface{}{s0, s1}, Format: format},
							expect, fmt.Sprintf("tag option %s = %v in the 2nd tag (default tag: all %s, other options of the 2nd tag: all %s); a 2nd source inherits the tag list", f.key, ch, base, rest))
					}
				}
			}
		}
	}
	// ---- an explicitly empty tag / rename list is a value of its own: it is not inherited over
	for _, format := range []string{"json", "yaml"} {
		n++
		if !vh.Mine(n) {
			continue
		}
		s0 := map[string]interface{}{"name": "s0", "out-dir": "/o", "log-dir": "/l", "target": map[string]interface{}{"name": "t", "http-host": "h:1"},
			"tags":   []interface{}{map[string]interface{}{"pattern": "DEFAULT", "delete": "true"}, map[string]interface{}{"pattern": "^keep/", "delete": "false"}},
			"rename": []interface{}{map[string]interface{}{"from": "^a", "to": "b"}}}
		s1 := map[string]interface{}{"name": "s1"}
		s2 := map[string]interface{}{"name": "s2", "tags": []interface{}{}, "rename": []interface{}{}}
		doc := c19Doc{Sources: []map[string]interface{}{s0, s1, s2}, Format: format}
		rep.Executions++
		rep.States++
		rep.Transitions += 2
		rep.Nontrivial++
		conf, text, err := c19Parse(doc)
		if err != nil {
			rep.Violate("", "explicit empty lists: the document does not parse: "+err.Error()+"\n"+text, doc)
			continue
		}
		lists := func(c *ClientConf) string {
			var out []string
			for _, s := range c.Sources {
				var pats []string
				for _, t := range s.Tags {
					p := "DEFAULT"
					if t.Pattern != nil {
						p = t.Pattern.String()
					}
					pats = append(pats, fmt.Sprintf("%s/delete=%v", p, t.Delete))
				}
				out = append(out, fmt.Sprintf("%s tags=%v renames=%d", s.Name, pats, len(s.Rename)))
			}
			return strings.Join(out, "; ")
		}
		check := func(c *ClientConf, when string) bool {
			if len(c.Sources) != 3 {
				rep.Violate("", fmt.Sprintf("explicit empty lists (%s, %s): %d sources", format, when, len(c.Sources)), doc)
				return false
			}
			if len(c.Sources[1].Tags) != 2 || len(c.Sources[1].Rename) != 1 {
				rep.Violate("", fmt.Sprintf("explicit empty lists (%s, %s): the source that omits tags and rename does not inherit them: %s", format, when, lists(c)), doc)
				return false
			}
			for _, t := range c.Sources[2].Tags {
				if t.Pattern != nil || t.Delete {
					rep.Violate("", fmt.Sprintf("explicit empty lists (%s, %s): source s2 says `tags: []`, yet it carries the preceding source's tags: %s", format, when, lists(c)), doc)
					return false
				}
			}
			if len(c.Sources[2].Rename) != 0 {
				rep.Violate("", fmt.Sprintf("explicit empty lists (%s, %s): source s2 says `rename: []`, yet it carries the preceding source's rename rules: %s", format, when, lists(c)), doc)
				return false
			}
			return true
		}
		if !check(conf, "parsed") {
			continue
		}
		b, err := json.Marshal(conf)
		if err != nil {
			rep.Violate("", "explicit empty lists: json.Marshal failed: "+err.Error(), doc)
			continue
		}
		conf2 := &ClientConf{}
		if err := json.Unmarshal(b, conf2); err != nil {
			rep.Violate("", "explicit empty lists: the re-encoded configuration does not parse: "+err.Error(), doc)
			continue
		}
		if check(conf2, "re-encoded") {
			rep.Outcome("ok explicit empty lists " + format)
		}
	}
	rep.Bound = "an explicitly empty tags / rename list in a third source (not inherited over, also after re-encoding); JSON and YAML documents with 2-3 sources: each of 23 source options (incl. target.*) varied individually in the 2nd source over {absent, a second value; booleans: absent, true, false} against a 1st source with all options absent / all present and the remaining options of the 2nd source all absent / all present, a 3rd source with nothing but a name; each of 7 tag options likewise in a 2nd tag against the default tag, the tag list inherited by a 2nd source; oracle: explicit value if given, else the preceding source's / default tag's effective value; parse -> json.Marshal -> parse yields the same effective options"
}
