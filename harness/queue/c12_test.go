//go:build verif

package queue

import (
	"fmt"
	"sort"
	"strings"
	"testing"
	"testing/synctest"
	"time"

	"github.com/arm-doe/sts"
	"github.com/arm-doe/sts/internal/verif/vh"
)

// C12: strict priority between tags, round-robin among equal-priority groups,
// last-file delay does not block other groups.

type c12Action struct {
	Op    string `json:"op"` // pop | push | pushyoung | adv
	Group int    `json:"g,omitempty"`
}

type c12Conf struct {
	Prio  []int `json:"priorities"` // per group
	Delay bool  `json:"last_delay"` // 1 min last-file delay on every tag
}

type c12File struct {
	name string
	t    time.Time
	left int
}

type c12Win struct {
	readyAll map[int]bool
	served   map[int]int
}

type c12Model struct {
	conf    c12Conf
	pending [][]*c12File
	pushed  []int
	win     []*c12Win
}

func (m *c12Model) ready(now time.Time) map[int]bool {
	r := map[int]bool{}
	for g, ps := range m.pending {
		if len(ps) == 0 {
			continue
		}
		if m.conf.Delay && len(ps) == 1 && now.Sub(ps[0].t) < time.Minute {
			continue
		}
		r[g] = true
	}
	return r
}

func c12Run(conf c12Conf, hist []c12Action) (res vh.HistResult) {
	synctest.Test(c12T, func(t *testing.T) {
		res = c12RunIn(conf, hist)
	})
	return
}

var c12T *testing.T

func c12RunIn(conf c12Conf, hist []c12Action) vh.HistResult {
	var tags []*Tag
	delay := time.Duration(0)
	if conf.Delay {
		delay = time.Minute
	}
	for p := 0; p < 3; p++ {
		tags = append(tags, &Tag{Name: fmt.Sprintf("T%d", p), Priority: p, Order: sts.OrderFIFO, ChunkSize: 1, LastDelay: delay})
	}
	n := len(conf.Prio)
	tagger := func(group string) string {
		var g int
		fmt.Sscanf(group, "g%d", &g)
		return fmt.Sprintf("T%d", conf.Prio[g])
	}
	q := NewTagged(tags, tagger, groupOf)
	m := &c12Model{conf: conf, pending: make([][]*c12File, n), pushed: make([]int, n), win: make([]*c12Win, n)}
	res := vh.HistResult{Enabled: true}
	for i, a := range hist {
		now := time.Now()
		switch a.Op {
		case "adv":
			time.Sleep(61 * time.Second)
		case "push", "pushyoung":
			g := a.Group
			m.pushed[g]++
			size := 1
			if m.pushed[g] == 1 {
				size = 2
			}
			ft := now.Add(-10 * time.Minute).Add(time.Duration(i) * time.Second)
			if a.Op == "pushyoung" {
				ft = now
			}
			f := &qFile{name: fmt.Sprintf("g%d.f%d", g, m.pushed[g]), size: int64(size), time: ft}
			q.Push([]sts.Hashed{f})
			m.pending[g] = append(m.pending[g], &c12File{name: f.name, t: ft, left: size})
			sort.SliceStable(m.pending[g], func(x, y int) bool {
				px, py := m.pending[g][x], m.pending[g][y]
				if px.t.Equal(py.t) {
					return px.name < py.name
				}
				return px.t.Before(py.t)
			})
		case "pop":
			R := m.ready(now)
			s := q.Pop()
			if s == nil {
				if len(R) > 0 {
					res.Viol = fmt.Sprintf("step %d: Pop returned nothing although groups %v are ready", i, sortedKeys(R))
					return res
				}
				if i == len(hist)-1 {
					res.Enabled = false
				}
				continue
			}
			var g int
			fmt.Sscanf(s.GetName(), "g%d.", &g)
			if !R[g] {
				why := "has nothing pending"
				if len(m.pending[g]) == 1 {
					why = "has only its last file left, which is younger than the last-file delay"
				}
				res.Viol = fmt.Sprintf("step %d: Pop served group g%d which %s (ready: %v)", i, g, why, sortedKeys(R))
				return res
			}
			maxP := -1
			for h := range R {
				if conf.Prio[h] > maxP {
					maxP = conf.Prio[h]
				}
			}
			if conf.Prio[g] != maxP {
				res.Viol = fmt.Sprintf("step %d: Pop served g%d (priority %d) while a group of priority %d is ready (ready: %v, priorities %v)", i, g, conf.Prio[g], maxP, sortedKeys(R), conf.Prio)
				return res
			}
			// round robin windows
			for G, w := range m.win {
				if w == nil {
					continue
				}
				for H := range w.readyAll {
					if !R[H] {
						w.readyAll[H] = false
					}
				}
				if G != g {
					w.served[g]++
				}
			}
			if w := m.win[g]; w != nil {
				for H, all := range w.readyAll {
					if all && w.served[H] == 0 {
						res.Viol = fmt.Sprintf("step %d: g%d served twice while g%d (same priority %d) was ready the whole time and not served in between", i, g, H, conf.Prio[g])
						return res
					}
				}
			}
			w := &c12Win{readyAll: map[int]bool{}, served: map[int]int{}}
			for H := 0; H < n; H++ {
				if H != g && conf.Prio[H] == conf.Prio[g] {
					// "ready throughout the window" includes its first instant: a group that
					// only becomes ready later joins the rotation behind the others
					w.readyAll[H] = R[H]
				}
			}
			m.win[g] = w
			// the chunk must come from the first pending file
			f := m.pending[g][0]
			if f.name != s.GetName() {
				res.Viol = fmt.Sprintf("step %d: chunk of %s emitted, first pending file of g%d is %s", i, s.GetName(), g, f.name)
				return res
			}
			f.left--
			if f.left == 0 {
				m.pending[g] = m.pending[g][1:]
			}
			if i == len(hist)-1 {
				res.Outcome = fmt.Sprintf("ready=%d served-prio=%d", len(R), conf.Prio[g])
			}
		}
	}
	res.Digest = vh.Digest(q.dumpState(), m.dump(time.Now()))
	return res
}

func (m *c12Model) dump(now time.Time) string {
	var b strings.Builder
	for g, ps := range m.pending {
		fmt.Fprintf(&b, "g%d n%d:", g, m.pushed[g])
		for _, p := range ps {
			fmt.Fprintf(&b, "%s/%d/%v ", p.name, p.left, now.Sub(p.t) < time.Minute)
		}
		if w := m.win[g]; w != nil {
			for _, H := range sortedKeys(w.readyAll) {
				fmt.Fprintf(&b, "w%d:%v:%v ", H, w.readyAll[H], w.served[H] > 0)
			}
		}
		b.WriteString("|")
	}
	return b.String()
}

func sortedKeys(m map[int]bool) []int {
	var out []int
	for k := range m {
		out = append(out, k)
	}
	sort.Ints(out)
	return out
}

type c12Replay struct {
	Conf c12Conf     `json:"conf"`
	Hist []c12Action `json:"history"`
}

func TestC12(t *testing.T) {
	c12T = t
	rep := vh.NewReport("C12", "priority + round robin + last-file delay")
	defer rep.Write()
	var rc c12Replay
	if vh.ReplaySpec(&rc) {
		r := c12Run(rc.Conf, rc.Hist)
		rep.Executions = 1
		if r.Viol != "" {
			rep.Violate(r.Class, r.Viol, rc)
		}
		return
	}
	depth, maxFiles := 8, 2
	ngroups := []int{3}
	if vh.Thorough() {
		depth, maxFiles = 10, 3
		ngroups = []int{3, 4}
	}
	var confs []c12Conf
	for _, n := range ngroups {
		for mask := 0; mask < 1<<n; mask++ {
			prio := make([]int, n)
			for g := 0; g < n; g++ {
				prio[g] = (mask >> g) & 1
			}
			confs = append(confs, c12Conf{Prio: prio}, c12Conf{Prio: prio, Delay: true})
		}
	}
	// one three-level configuration
	confs = append(confs, c12Conf{Prio: []int{2, 0, 1}}, c12Conf{Prio: []int{0, 2, 1}, Delay: true})
	for _, conf := range confs {
		conf := conf
		h := &vh.Hist[c12Action]{
			Rep: rep,
			Alphabet: func(hist []c12Action) []c12Action {
				pushed := make([]int, len(conf.Prio))
				for _, a := range hist {
					if a.Op == "push" || a.Op == "pushyoung" {
						pushed[a.Group]++
					}
				}
				out := []c12Action{{Op: "pop"}}
				for g := range conf.Prio {
					if pushed[g] < maxFiles {
						out = append(out, c12Action{Op: "push", Group: g})
						if conf.Delay {
							out = append(out, c12Action{Op: "pushyoung", Group: g})
						}
					}
				}
				if conf.Delay {
					advs := 0
					for _, a := range hist {
						if a.Op == "adv" {
							advs++
						}
					}
					if advs < 1 {
						out = append(out, c12Action{Op: "adv"})
					}
				}
				return out
			},
			Run:        func(hist []c12Action) vh.HistResult { return c12Run(conf, hist) },
			MaxDepth:   depth,
			ShardDepth: 2,
			NonTrivial: func(hist []c12Action, r vh.HistResult) bool {
				groups := map[int]bool{}
				pops := 0
				for _, a := range hist {
					if a.Op == "pop" {
						pops++
					} else if a.Op != "adv" {
						groups[a.Group] = true
					}
				}
				return len(groups) >= 2 && pops >= 2
			},
			Render: func(hist []c12Action) interface{} { return c12Replay{Conf: conf, Hist: hist} },
		}
		h.Explore()
	}
	rep.Bound = fmt.Sprintf("all Push/Pop(/clock advance) histories up to length %d; groups %v with every assignment of 2 priorities (+2 three-level layouts); <=%d files per group (first file 2 chunks); last-file delay 0 and 1 min with files on both sides of it", depth, ngroups, maxFiles)
}
