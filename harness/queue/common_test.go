//go:build verif

package queue

import (
	"fmt"
	"sort"
	"strings"
	"time"

	"github.com/arm-doe/sts"
	"github.com/arm-doe/sts/internal/verif/vh"
	"github.com/arm-doe/sts/log"
)

func init() {
	log.InitExternal(vh.NullLogger{})
}

type qFile struct {
	name string
	size int64
	time time.Time
}

func (f *qFile) GetPath() string    { return "/x/" + f.name }
func (f *qFile) GetName() string    { return f.name }
func (f *qFile) GetSize() int64     { return f.size }
func (f *qFile) GetTime() time.Time { return f.time }
func (f *qFile) GetMeta() []byte    { return nil }
func (f *qFile) GetHash() string    { return "h-" + f.name }

// qRecovered mimics client.recoverFile (a file resumed after a restart, or a
// fully allocated placeholder when left is empty).
type qRecovered struct {
	*qFile
	prev string
	left [][2]int64
	part int
	used int64
}

func (f *qRecovered) GetPrev() string { return f.prev }
func (f *qRecovered) Allocate(desired int64) (offset int64, length int64) {
	offset = f.left[f.part][0] + f.used
	length = desired
	f.used += length
	if offset+length >= f.left[f.part][1] {
		length = f.left[f.part][1] - offset
		f.part++
		f.used = 0
	}
	return
}
func (f *qRecovered) IsAllocated() bool { return f.part == len(f.left) }
func (f *qRecovered) GetSendSize() int64 {
	var n int64
	for _, p := range f.left {
		n += p[1] - p[0]
	}
	return n
}

var _ sts.Recovered = &qRecovered{}

// dumpState renders the queue's private state canonically (for state digests).
func (q *Tagged) dumpState() string {
	var b strings.Builder
	for g := q.headGroup; g != nil; g = g.next {
		fmt.Fprintf(&b, "G %s p%d|", g.name, g.conf.Priority)
		if h := q.headFile[g.name]; h != nil {
			fmt.Fprintf(&b, "head=%s|", h.orig.GetName())
		}
		for _, f := range q.list[g.name] {
			dumpFile(&b, f)
		}
		// chain reachable from head backwards and forwards
		if h := q.headFile[g.name]; h != nil {
			b.WriteString("chain:")
			first := h
			for n := 0; first.prev != nil && n < 100; n++ {
				first = first.prev
			}
			for f, n := first, 0; f != nil && n < 100; f, n = f.next, n+1 {
				fmt.Fprintf(&b, "%s>", f.orig.GetName())
			}
		}
		b.WriteString("\n")
	}
	var names []string
	for n := range q.byFile {
		names = append(names, n)
	}
	sort.Strings(names)
	b.WriteString(strings.Join(names, ","))
	return b.String()
}

func dumpFile(b *strings.Builder, f *sortedFile) {
	fmt.Fprintf(b, "%s a%d", f.orig.GetName(), f.allocated)
	if r, ok := f.orig.(*qRecovered); ok {
		fmt.Fprintf(b, " r%d.%d", r.part, r.used)
	}
	if f.prev != nil {
		fmt.Fprintf(b, " <%s", f.prev.orig.GetName())
	}
	if f.next != nil {
		fmt.Fprintf(b, " >%s", f.next.orig.GetName())
	}
	b.WriteString("|")
}
