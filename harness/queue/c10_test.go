//go:build verif

package queue

import (
	"fmt"
	"strings"
	"testing"
	"time"

	"github.com/arm-doe/sts"
	"github.com/arm-doe/sts/internal/verif/vh"
)

// C10: files leave the queue in configured order with a consistent predecessor chain.
// E-HIST over Push/Pop histories on the real queue.Tagged; reference = sorted
// slice of pending files + list of completed names.

type c10Action struct {
	Op   string `json:"op"` // pop | push | dup | placeholder | resumed | resumedself | resumedempty
	File string `json:"file,omitempty"`
}

func (a c10Action) String() string { return a.Op + ":" + a.File }

var c10T0 = time.Date(2001, 2, 3, 4, 5, 6, 0, time.UTC)

type c10FileDef struct {
	name   string
	size   int64
	tOff   int // milliseconds after t0
	group  string
}

// equal stamps included (a,b); d is older than c by 300 ms within one second (names sort the
// other way round); x lives in a second group, y and z follow it, z 100 ms before y
var c10Files = map[string]c10FileDef{
	"g1.a": {"g1.a", 2, 0, "g1"},
	"g1.b": {"g1.b", 1, 0, "g1"},
	"g1.c": {"g1.c", 3, 1700, "g1"},
	"g1.d": {"g1.d", 2, 1400, "g1"},
	"g2.x": {"g2.x", 2, 1000, "g2"},
	"g2.y": {"g2.y", 1, 3500, "g2"},
	"g2.z": {"g2.z", 2, 3400, "g2"},
}

type c10Pending struct {
	name    string
	t       time.Time
	arrival int
	left    int64 // chunks left
	resumed bool
	prev    string // carried predecessor for resumed files
}

type c10Model struct {
	order     string
	pending   map[string][]*c10Pending // per group
	completed map[string][]string      // per group, in order of completion / placeholder push
	strict    map[string]bool          // group has seen neither resumed, placeholder nor duplicate
	everDup   bool
	arrivals  int
	edges     map[string]string // file -> announced predecessor (names unique so far)
	pushed    map[string]int
	times     map[string]time.Time // time stamp of every file pushed (ordering key for fifo / lifo)
}

// before: does x come before f in the configured order (strictly)?
func (m *c10Model) before(x, f string) bool {
	switch m.order {
	case sts.OrderFIFO:
		return m.times[x].Before(m.times[f])
	case sts.OrderLIFO:
		return m.times[x].After(m.times[f])
	case sts.OrderAlpha:
		return x < f
	}
	return false
}

func newC10Model(order string) *c10Model {
	return &c10Model{order: order, pending: map[string][]*c10Pending{}, completed: map[string][]string{},
		strict: map[string]bool{"g1": true, "g2": true}, edges: map[string]string{}, pushed: map[string]int{}, times: map[string]time.Time{}}
}

func groupOf(name string) string { return name[:strings.Index(name, ".")] }

// first returns the names that may legitimately come first (ties on the primary key).
func (m *c10Model) first(group string) map[string]bool {
	ps := m.pending[group]
	out := map[string]bool{}
	if len(ps) == 0 {
		return out
	}
	better := func(a, b *c10Pending) int { // <0: a strictly before b; 0 tie
		switch m.order {
		case sts.OrderFIFO:
			if a.t.Before(b.t) {
				return -1
			} else if a.t.After(b.t) {
				return 1
			}
			return 0
		case sts.OrderLIFO:
			if a.t.After(b.t) {
				return -1
			} else if a.t.Before(b.t) {
				return 1
			}
			return 0
		case sts.OrderAlpha:
			return strings.Compare(a.name, b.name)
		default: // none: order of arrival
			return a.arrival - b.arrival
		}
	}
	best := ps[0]
	for _, p := range ps[1:] {
		if better(p, best) < 0 {
			best = p
		}
	}
	for _, p := range ps {
		if better(p, best) == 0 {
			out[p.name] = true
		}
	}
	return out
}

func (m *c10Model) removePending(group, name string) {
	ps := m.pending[group]
	for i, p := range ps {
		if p.name == name {
			m.pending[group] = append(append([]*c10Pending{}, ps[:i]...), ps[i+1:]...)
			return
		}
	}
}

func (m *c10Model) cyclic() bool {
	for start := range m.edges {
		seen := map[string]bool{}
		for cur := start; cur != ""; cur = m.edges[cur] {
			if seen[cur] {
				return true
			}
			seen[cur] = true
		}
	}
	return false
}

func c10Alphabet(thorough bool) func(hist []c10Action) []c10Action {
	return func(hist []c10Action) []c10Action {
		pushed := map[string]int{}
		dups := 0
		for _, a := range hist {
			if a.Op != "pop" {
				pushed[a.File]++
			}
			if a.Op == "dup" {
				dups++
			}
		}
		out := []c10Action{{Op: "pop"}}
		for _, n := range []string{"g1.a", "g1.b", "g1.c", "g1.d", "g2.x"} {
			if pushed[n] == 0 {
				out = append(out, c10Action{Op: "push", File: n})
			} else if dups == 0 && n != "g2.x" {
				out = append(out, c10Action{Op: "dup", File: n})
			}
		}
		if pushed["g1.p"] == 0 {
			out = append(out, c10Action{Op: "placeholder", File: "g1.p"})
		}
		if pushed["g1.r"] == 0 {
			out = append(out, c10Action{Op: "resumed", File: "g1.r"})
		}
		if pushed["g1.e"] == 0 {
			// a file resumed (or re-sent whole) that had announced no predecessor
			out = append(out, c10Action{Op: "resumedempty", File: "g1.e"})
		}
		if thorough && pushed["g1.s"] == 0 {
			out = append(out, c10Action{Op: "resumedself", File: "g1.s"})
		}
		return out
	}
}

func c10Run(order string, hist []c10Action) (res vh.HistResult) {
	tags := []*Tag{{Name: "T", Order: order, ChunkSize: 1}}
	q := NewTagged(tags, func(string) string { return "T" }, groupOf)
	m := newC10Model(order)
	res = vh.HistResult{Enabled: true}
	defer func() {
		if p := recover(); p != nil {
			res = vh.HistResult{Enabled: true, Viol: fmt.Sprintf("the queue panicked (order %q, history %v): %v", order, hist, p)}
		}
	}()
	outcome := ""
	for i, a := range hist {
		last := i == len(hist)-1
		switch a.Op {
		case "push", "dup":
			d := c10Files[a.File]
			f := &qFile{name: d.name, size: d.size, time: c10T0.Add(time.Duration(d.tOff) * time.Millisecond)}
			q.Push([]sts.Hashed{f})
			m.times[d.name] = f.time
			if a.Op == "dup" {
				m.removePending(d.group, d.name)
				m.strict[d.group] = false
				m.everDup = true
			}
			m.arrivals++
			m.pending[d.group] = append(m.pending[d.group], &c10Pending{name: d.name, t: f.time, arrival: m.arrivals, left: d.size})
		case "placeholder":
			f := &qRecovered{qFile: &qFile{name: a.File, size: 4, time: c10T0.Add(-time.Second)}}
			q.Push([]sts.Hashed{f})
			m.times[a.File] = f.time
			m.completed["g1"] = append(m.completed["g1"], a.File)
			m.strict["g1"] = false
		case "resumed", "resumedself", "resumedempty":
			prev := "g1.p"
			if a.Op == "resumedself" {
				prev = a.File
			}
			if a.Op == "resumedempty" {
				prev = ""
			}
			f := &qRecovered{qFile: &qFile{name: a.File, size: 5, time: c10T0.Add(time.Second)}, prev: prev, left: [][2]int64{{1, 2}, {3, 4}}}
			q.Push([]sts.Hashed{f})
			m.times[a.File] = f.time
			m.arrivals++
			m.pending["g1"] = append(m.pending["g1"], &c10Pending{name: a.File, t: f.time, arrival: m.arrivals, left: 2, resumed: true, prev: prev})
			m.strict["g1"] = false
		case "pop":
			s := q.Pop()
			anyPending := len(m.pending["g1"])+len(m.pending["g2"]) > 0
			if s == nil {
				if anyPending {
					res.Viol = fmt.Sprintf("step %d: Pop returned nothing although files are pending: %v", i, m.pendingNames())
					return res
				}
				if last {
					res.Enabled = false // empty pop on empty queue: no new state
				}
				continue
			}
			name := s.GetName()
			g := groupOf(name)
			cands := m.first(g)
			if !cands[name] {
				res.Viol = fmt.Sprintf("step %d (order %q): Pop emitted a chunk of %s, but first in order among pending files of %s is %v", i, order, name, g, keys(cands))
				return res
			}
			var p *c10Pending
			for _, x := range m.pending[g] {
				if x.name == name {
					p = x
				}
			}
			pred := s.GetPrev()
			if last {
				outcome = fmt.Sprintf("pred=%v strict=%v resumed=%v", pred != "", m.strict[g], p.resumed)
			}
			switch {
			case order == sts.OrderNone:
				if pred != "" {
					res.Viol = fmt.Sprintf("step %d: unordered tag but %s announces predecessor %q", i, name, pred)
					return res
				}
			case pred == name:
				res.Viol = fmt.Sprintf("step %d: %s names itself as predecessor", i, name)
				return res
			case p.resumed:
				want := p.prev
				if want == name {
					want = ""
				}
				if pred != want {
					res.Viol = fmt.Sprintf("step %d: resumed file %s announces %q, it carried %q", i, name, pred, want)
					return res
				}
			default:
				if pred != "" && !contains(m.completed[g], pred) {
					res.Viol = fmt.Sprintf("step %d: %s announces predecessor %q which was neither emitted completely nor queued as already sent (completed: %v)", i, name, pred, m.completed[g])
					return res
				}
				if pred == "" && !m.everDup {
					// a file that was emitted completely, or queued as already sent, and that comes
					// before this one in the configured order is there to be named
					for _, x := range m.completed[g] {
						if m.before(x, name) {
							res.Viol = fmt.Sprintf("step %d: %s announces no predecessor although %s, which precedes it in the configured order, was emitted completely or queued as already sent (completed: %v)", i, name, x, m.completed[g])
							return res
						}
					}
				}
				if m.strict[g] {
					want := ""
					if c := m.completed[g]; len(c) > 0 {
						want = c[len(c)-1]
					}
					if pred != want {
						res.Viol = fmt.Sprintf("step %d: %s announces predecessor %q; the file completed most recently in its group is %q", i, name, pred, want)
						return res
					}
				}
			}
			if order != sts.OrderNone && !m.everDup && pred != "" {
				m.edges[name] = pred
				if m.cyclic() {
					res.Viol = fmt.Sprintf("step %d: announced predecessor relation has a cycle: %v", i, m.edges)
					return res
				}
			}
			p.left--
			if p.left == 0 {
				m.removePending(g, name)
				m.completed[g] = append(m.completed[g], name)
			}
		}
	}
	res.Outcome = outcome
	res.Digest = vh.Digest(q.dumpState(), m.dump())
	return res
}

func (m *c10Model) pendingNames() []string {
	var out []string
	for _, g := range []string{"g1", "g2"} {
		for _, p := range m.pending[g] {
			out = append(out, p.name)
		}
	}
	return out
}

func (m *c10Model) dump() string {
	var b strings.Builder
	for _, g := range []string{"g1", "g2"} {
		fmt.Fprintf(&b, "%s strict=%v done=%v pend=", g, m.strict[g], m.completed[g])
		for _, p := range m.pending[g] {
			fmt.Fprintf(&b, "%s/%d/%d ", p.name, p.left, p.arrival)
		}
	}
	fmt.Fprintf(&b, "dup=%v edges=%v", m.everDup, m.edges)
	return b.String()
}

func keys(m map[string]bool) []string {
	var out []string
	for k := range m {
		out = append(out, k)
	}
	return out
}

func contains(l []string, s string) bool {
	for _, x := range l {
		if x == s {
			return true
		}
	}
	return false
}

type c10Replay struct {
	Order string      `json:"order"`
	Hist  []c10Action `json:"history"`
}

// c10GroupsAlphabet: two groups; the first one holds placeholders (files the receiver already
// has completely, queued after a restart to keep the chain) and one real file, the second one
// three files that arrive while others are half emitted.
func c10GroupsAlphabet(hist []c10Action) []c10Action {
	pushed := map[string]int{}
	for _, a := range hist {
		if a.Op != "pop" {
			pushed[a.File]++
		}
	}
	out := []c10Action{{Op: "pop"}}
	for _, n := range []string{"g1.p", "g1.q"} {
		if pushed[n] == 0 {
			out = append(out, c10Action{Op: "placeholder", File: n})
		}
	}
	for _, n := range []string{"g1.a", "g2.x", "g2.y", "g2.z"} {
		if pushed[n] == 0 {
			out = append(out, c10Action{Op: "push", File: n})
		}
	}
	return out
}

func TestC10Groups(t *testing.T) {
	rep := vh.NewReport("C10", "two groups, placeholders in the first one")
	defer rep.Write()
	var rc c10Replay
	if vh.ReplaySpec(&rc) {
		r := c10Run(rc.Order, rc.Hist)
		rep.Executions = 1
		if r.Viol != "" {
			rep.Violate(r.Class, r.Viol, rc)
		}
		return
	}
	depth := 9
	if vh.Thorough() {
		depth = 12
	}
	for _, order := range []string{sts.OrderFIFO, sts.OrderLIFO, sts.OrderAlpha, sts.OrderNone} {
		order := order
		h := &vh.Hist[c10Action]{
			Rep:        rep,
			Alphabet:   c10GroupsAlphabet,
			Run:        func(hist []c10Action) vh.HistResult { return c10Run(order, hist) },
			MaxDepth:   depth,
			ShardDepth: 2,
			NonTrivial: func(hist []c10Action, r vh.HistResult) bool { return len(hist) >= 3 },
			Render:     func(hist []c10Action) interface{} { return c10Replay{Order: order, Hist: hist} },
		}
		h.Explore()
	}
	rep.Bound = fmt.Sprintf("all Push/Pop histories up to length %d over two groups: two placeholders and one file in the first, three files in the second; orders fifo, lifo, alphabetical, none; chunk size 1", depth)
}

func TestC10(t *testing.T) {
	rep := vh.NewReport("C10", "queue order + predecessor chain")
	defer rep.Write()
	var rc c10Replay
	if vh.ReplaySpec(&rc) {
		r := c10Run(rc.Order, rc.Hist)
		rep.Executions = 1
		if r.Viol != "" {
			rep.Violate(r.Class, r.Viol, rc)
		}
		return
	}
	depth := 8
	if vh.Thorough() {
		depth = 11
	}
	for _, order := range []string{sts.OrderFIFO, sts.OrderLIFO, sts.OrderAlpha, sts.OrderNone} {
		order := order
		h := &vh.Hist[c10Action]{
			Rep:        rep,
			Alphabet:   c10Alphabet(vh.Thorough()),
			Run:        func(hist []c10Action) vh.HistResult { return c10Run(order, hist) },
			MaxDepth:   depth,
			ShardDepth: 2,
			NonTrivial: func(hist []c10Action, r vh.HistResult) bool {
				pushes, pops := 0, 0
				for _, a := range hist {
					if a.Op == "pop" {
						pops++
					} else {
						pushes++
					}
				}
				return pushes >= 2 && pops >= 1
			},
			Render: func(hist []c10Action) interface{} { return c10Replay{Order: order, Hist: hist} },
		}
		h.Explore()
	}
	rep.Bound = fmt.Sprintf("all Push/Pop histories up to length %d over 5 files in 2 groups (equal time stamps included), one re-push of a queued name, a placeholder, a resumed file carrying a predecessor and one carrying none; orders fifo, lifo, alphabetical, none; chunk size 1 (files of 1-3 chunks)", depth)
}
