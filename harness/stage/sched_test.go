//go:build verif

package stage

import (
	"bytes"
	"encoding/json"
	"fmt"
	"os"
	"path/filepath"
	"sort"
	"strings"
	"sync"
	"sync/atomic"
	"testing"
	"time"

	"github.com/arm-doe/sts"
	"github.com/arm-doe/sts/internal/verif/vh"
	"github.com/arm-doe/sts/internal/verif/vos"
	"github.com/arm-doe/sts/internal/verif/vrt"
)

// E-SCHED harnesses for the receiving side: concurrent connections deliver parts of the
// same / of different files while the stage's own goroutines (validators, finalizer,
// timers) run; every interleaving of lock operations, file-system mutations and goroutine
// starts up to the preemption bound is executed.

var dbgNotify = os.Getenv("VERIF_DEBUG_NOTIFY") != ""

type schedWorld struct {
	hmu   sync.Mutex // harness bookkeeping below (threads run in parallel in the free-running -race pass)
	w     *rw
	root  string
	errs  map[string]error // thread/op -> error of Receive
	obs   []string         // observations of reader threads
	files map[string]*sFile
	// receptions in flight: source name -> goroutine ids; lockSplit is set when the stage drops
	// the per-file lock of a name (delPathLock) while another reception of that name is in flight
	inflight  map[string]map[uint64]bool
	lockSplit bool
	notReady  bool // the stage's ready flag has been cleared at least once (Recover)
	// a goroutine that has fetched a reference to a per-file lock and not yet taken it; whether it
	// has touched the file system since. In the code as it stands nothing lies between the two
	// (`lock := s.getPathLock(path); lock.Lock()`): the recorded finding path-lock-dropped-in-use is
	// a lock replaced in THAT window. A reference carried across file operations is another matter.
	refHeld   map[uint64]string
	refFsOps  map[uint64]bool
	wideSplit bool
}

func newSchedWorld(files []*sFile) *schedWorld { return newSchedWorldPre(files, nil) }

// newSchedWorldPre: pre prepares the sandbox (e.g. receive-log records of an earlier run) before
// the stage is created.
func newSchedWorldPre(files []*sFile, pre func(w *rw)) *schedWorld {
	vh.Epoch2011()
	root := vh.NewSandbox()
	sw := &schedWorld{root: root, w: newRW(root), errs: map[string]error{}, files: map[string]*sFile{}}
	for _, f := range files {
		sw.files[f.Key] = f
	}
	sw.inflight = map[string]map[uint64]bool{}
	sw.refHeld, sw.refFsOps = map[uint64]string{}, map[uint64]bool{}
	vrt.OnNotify = func(what, arg string) {
		sw.hmu.Lock()
		defer sw.hmu.Unlock()
		if what == "canReceive" && arg == "false" {
			sw.notReady = true // Recover has closed the gate
		}
		if what == "pathLockRef" {
			sw.refHeld[vrt.Goid()] = strings.TrimPrefix(arg, sw.w.stageDir+"/")
			delete(sw.refFsOps, vrt.Goid())
			return
		}
		if what == "pathLockTaken" {
			delete(sw.refHeld, vrt.Goid())
			delete(sw.refFsOps, vrt.Goid())
			return
		}
		if what != "delPathLock" {
			return
		}
		name := strings.TrimPrefix(arg, sw.w.stageDir+"/")
		me := vrt.Goid()
		for g, n := range sw.refHeld {
			if g != me && n == name && sw.refFsOps[g] {
				sw.wideSplit = true
			}
		}
		if dbgNotify {
			fmt.Println("NOTIFY", what, name, me, sw.inflight)
		}
		for g := range sw.inflight[name] {
			if g != me {
				sw.lockSplit = true
			}
		}
	}
	if pre != nil {
		pre(sw.w)
	}
	sw.w.start() // before the scheduler is active: the handler goroutines start natively
	vos.Hook = func(op, p1, p2 string) error {
		if strings.HasPrefix(p1, root+"/") {
			sw.hmu.Lock()
			if _, ok := sw.refHeld[vrt.Goid()]; ok {
				sw.refFsOps[vrt.Goid()] = true
			}
			sw.hmu.Unlock()
			vrt.Point(vrt.Op{Kind: "fs:" + op, Obj: strings.TrimPrefix(p1, root+"/")})
		}
		return nil
	}
	return sw
}

func (sw *schedWorld) ftime() time.Time { return time.Date(2010, 12, 31, 23, 0, 0, 0, time.UTC) }

// recv is what http.Server.routeData does for one part.
func (sw *schedWorld) recv(key string, p int, corrupt bool) {
	f := sw.files[key]
	me := vrt.Goid()
	sw.hmu.Lock()
	if sw.inflight[f.Name] == nil {
		sw.inflight[f.Name] = map[uint64]bool{}
	}
	sw.inflight[f.Name][me] = true
	sw.hmu.Unlock()
	defer func() {
		sw.hmu.Lock()
		delete(sw.inflight[f.Name], me)
		sw.hmu.Unlock()
	}()
	v := &version{Name: f.Name, Renamed: f.Renamed, Data: []byte(f.Data), Hash: f.hash(), Time: sw.ftime()}
	vp := part(v, f.Prev, f.Cuts[p], f.Cuts[p+1])
	data := append([]byte{}, []byte(f.Data)[vp.beg:vp.end]...)
	if corrupt {
		data[0] ^= 0x20
	}
	sw.w.st.Prepare([]sts.Binned{vp})
	file := &sts.Partial{Name: f.Name, Renamed: f.Renamed, Prev: f.Prev, Size: int64(len(f.Data)), Hash: f.hash(), Source: "src",
		Parts: []*sts.ByteRange{{Beg: vp.beg, End: vp.end}}}
	file.Time.Time = sw.ftime()
	err := sw.w.st.Receive(file, bytes.NewReader(data))
	sw.hmu.Lock()
	sw.errs[fmt.Sprintf("%s.%d", key, p)] = err
	sw.hmu.Unlock()
}

// finish: settle, collect, tear down. Returns final-directory content ("target md5") and log records.
func (sw *schedWorld) finish() (final []string, log []string, stage []vh.Entry) {
	vos.Hook = nil
	sw.w.settle()
	for _, e := range vh.List(sw.w.finalDir) {
		if !e.Dir {
			final = append(final, e.Path+" "+e.MD5)
		}
	}
	log = sw.w.logRecords()
	stage = vh.List(sw.w.stageDir)
	return
}

// class names the known finding an observed violation belongs to, if any.
func (sw *schedWorld) class() string {
	if sw.wideSplit {
		return "" // not the recorded window: a lock reference was carried across file operations
	}
	if sw.lockSplit {
		return "path-lock-dropped-in-use"
	}
	return ""
}

func (sw *schedWorld) close() {
	vos.Hook = nil
	vrt.OnNotify = nil
	sw.w.stop()
	vh.RemoveSandbox(sw.root)
}

// c01FinalOracle: everything in the final directory is an announced version, hash = log hash.
func (sw *schedWorld) c01FinalOracle(final, log []string) string {
	for _, arr := range final {
		sp := strings.LastIndex(arr, " ")
		target, md5 := arr[:sp], arr[sp+1:]
		if strings.HasSuffix(target, ".lck") {
			continue
		}
		var match *sFile
		for _, f := range sw.files {
			if f.target() == target && f.hash() == md5 {
				match = f
			}
		}
		if match == nil {
			return fmt.Sprintf("%q was delivered with content md5 %s, which is no announced version of that file", target, md5)
		}
		lastHash := ""
		for _, rec := range log {
			parts := strings.Split(rec, "|")
			if parts[0] == match.Name {
				lastHash = parts[2]
			}
		}
		if lastHash != md5 {
			return fmt.Sprintf("%q delivered with md5 %s but the latest receive-log record for it carries %q", target, md5, lastHash)
		}
	}
	return ""
}

func sortedCopy(a []string) []string {
	b := append([]string{}, a...)
	sort.Strings(b)
	return b
}

// ---------------------------------------------------------------- scenarios

func schedFilesAB() []*sFile {
	return []*sFile{
		{Key: "a1", Name: "a", Data: "AAAABBBB", Cuts: []int64{0, 4, 8}},
		{Key: "a2", Name: "a", Data: "aaaabbbb", Cuts: []int64{0, 4, 8}},
		{Key: "c1", Name: "d/c", Data: "CCCCDDDD", Cuts: []int64{0, 4, 8}},
	}
}

// scenarioTwoParts: two connections deliver the two parts of one file concurrently
// (optionally a third thread reads the record meanwhile).
func scenarioTwoParts(withReader bool, bound int) *vh.SchedScenario {
	name := "two-parts-one-file"
	if withReader {
		name += "+reader"
	}
	return &vh.SchedScenario{Name: name, Bound: bound, Build: func(x *vrt.Sched) func(*vrt.Sched) (string, string, string) {
		sw := newSchedWorld(schedFilesAB())
		x.Go("conn1", func() { sw.recv("a1", 0, false) })
		x.Go("conn2", func() { sw.recv("a1", 1, false) })
		var readerViol string
		if withReader {
			x.Go("reader", func() {
				f := sw.files["a1"]
				js, err := sw.w.st.Scan("1")
				if err != nil {
					return
				}
				var list []*sts.Partial
				_ = json.Unmarshal(js, &list)
				body, _ := sw.w.staged("a", partExt)
				for _, p := range list {
					for _, r := range p.Parts {
						if p.Name == "a" && (int64(len(body)) < r.End || !bytes.Equal(body[r.Beg:r.End], []byte(f.Data)[r.Beg:r.End])) {
							if _, still := sw.w.staged("a", partExt); still {
								readerViol = fmt.Sprintf("Scan listed [%d,%d) of a while the staged file held %q there", r.Beg, r.End, safeSlice(body, r.Beg, r.End))
							}
						}
					}
				}
				v := &version{Name: f.Name, Data: []byte(f.Data), Hash: f.hash(), Time: sw.ftime()}
				n := sw.w.st.Received([]sts.Binned{part(v, "", 0, 4)})
				sw.obs = append(sw.obs, fmt.Sprintf("received[0,4)=%d", n))
			})
		}
		return func(x *vrt.Sched) (string, string, string) {
			defer sw.close()
			if x.Deadlock != "" || x.Diverged != "" {
				return "", "", ""
			}
			final, log, stage := sw.finish()
			if readerViol != "" {
				return readerViol, sw.class(), ""
			}
			if sw.errs["a1.0"] != nil || sw.errs["a1.1"] != nil {
				return "", "", fmt.Sprintf("errors %v", sw.errs)
			}
			// both parts were acknowledged: they are on record, so the file is complete and delivered
			f := sw.files["a1"]
			want := f.target() + " " + f.hash()
			if len(final) != 1 || final[0] != want {
				return fmt.Sprintf("both parts of a were acknowledged, yet the file was not completed and delivered: final=%v log=%v stage=%v", final, log, stageNames(stage)), sw.class(), ""
			}
			if v := sw.c01FinalOracle(final, log); v != "" {
				return v, sw.class(), ""
			}
			return "", "", fmt.Sprintf("delivered obs=%v", sw.obs)
		}
	}}
}

// scenarioTwoFiles: two connections deliver parts of different files.
func scenarioTwoFiles(twoParts bool, bound int) *vh.SchedScenario {
	name := "two-files-one-part-each"
	if twoParts {
		name = "two-files-two-parts-each"
	}
	return &vh.SchedScenario{Name: name, Bound: bound, Build: func(x *vrt.Sched) func(*vrt.Sched) (string, string, string) {
		sw := newSchedWorld(schedFilesAB())
		if twoParts {
			x.Go("conn1", func() { sw.recv("a1", 0, false); sw.recv("a1", 1, false) })
			x.Go("conn2", func() { sw.recv("c1", 1, false); sw.recv("c1", 0, false) })
		} else {
			sw.recv("a1", 0, false) // sequential prefix
			sw.recv("c1", 1, false)
			x.Go("conn1", func() { sw.recv("a1", 1, false) })
			x.Go("conn2", func() { sw.recv("c1", 0, false) })
		}
		return func(x *vrt.Sched) (string, string, string) {
			defer sw.close()
			if x.Deadlock != "" || x.Diverged != "" {
				return "", "", ""
			}
			final, log, stage := sw.finish()
			for k, e := range sw.errs {
				if e != nil {
					return "", "", fmt.Sprintf("error %s: %v", k, e)
				}
			}
			want := sortedCopy([]string{sw.files["a1"].target() + " " + sw.files["a1"].hash(), sw.files["c1"].target() + " " + sw.files["c1"].hash()})
			if fmt.Sprint(sortedCopy(final)) != fmt.Sprint(want) {
				return fmt.Sprintf("all parts of a and d/c were acknowledged, yet not both files were delivered: final=%v log=%v stage=%v", final, log, stageNames(stage)), sw.class(), ""
			}
			if v := sw.c01FinalOracle(final, log); v != "" {
				return v, sw.class(), ""
			}
			return "", "", "delivered both"
		}
	}}
}

// scenarioNewVersionDuringValidation: version 1 of a name completes; while it is being
// validated / finalized a second connection delivers a corrupted version 2 of the same name
// and size. Whatever is delivered must be an announced version with the logged hash, and a
// version whose bytes do not match its hash must not be answered 'passed'.
func scenarioNewVersion(bound int) *vh.SchedScenario {
	return &vh.SchedScenario{Name: "new-version-during-validation", Bound: bound, Build: func(x *vrt.Sched) func(*vrt.Sched) (string, string, string) {
		sw := newSchedWorld(schedFilesAB())
		sw.recv("a1", 0, false) // sequential prefix (scheduler not active yet)
		x.Go("conn1", func() { sw.recv("a1", 1, false) })
		x.Go("conn2", func() { sw.recv("a2", 0, true); sw.recv("a2", 1, false) })
		return func(x *vrt.Sched) (string, string, string) {
			defer sw.close()
			if x.Deadlock != "" || x.Diverged != "" {
				return "", "", ""
			}
			final, log, _ := sw.finish()
			if v := sw.c01FinalOracle(final, log); v != "" {
				return v, sw.class(), ""
			}
			status := sw.w.st.GetFileStatus("a", sw.ftime())
			path := sw.w.stageDir + "/a"
			if (status == sts.ConfirmPassed || status == sts.ConfirmWaiting) && sw.w.st.getFileHash(path) == sw.files["a2"].hash() {
				return fmt.Sprintf("version 2 of a (corrupted in transit) is answered %d by the poll; final=%v log=%v", status, final, log), "", ""
			}
			return "", "", fmt.Sprintf("final=%d status=%d", len(final), status)
		}
	}}
}

// scenarioHeldVsNewVersion: version 1 of b is validated and held for p. One connection delivers p
// (which releases b: finalize, move, log, companion clean-up), another one delivers the two parts
// of version 2 of b at the same time. Whatever the interleaving, the receiver must end up with
// version 2 of b in the final directory, logged with its own hash, and nothing of b in staging.
func scenarioHeldVsNewVersion(bound int) *vh.SchedScenario {
	return &vh.SchedScenario{Name: "held-version-released-vs-new-version", Bound: bound, Build: func(x *vrt.Sched) func(*vrt.Sched) (string, string, string) {
		files := []*sFile{
			{Key: "p1", Name: "p", Data: "PPPP", Cuts: []int64{0, 4}},
			{Key: "b1", Name: "b", Prev: "p", Data: "CCCCDD", Cuts: []int64{0, 6}},
			{Key: "b2", Name: "b", Prev: "p", Data: "ccccdd", Cuts: []int64{0, 4, 6}},
		}
		sw := newSchedWorld(files)
		sw.recv("b1", 0, false) // sequential prefix: version 1 complete, validated, held
		sw.w.settle()
		x.Go("conn1", func() { sw.recv("p1", 0, false) })
		x.Go("conn2", func() { sw.recv("b2", 0, false); sw.recv("b2", 1, false) })
		return func(x *vrt.Sched) (string, string, string) {
			defer sw.close()
			if x.Deadlock != "" || x.Diverged != "" {
				return "", "", ""
			}
			final, log, stage := sw.finish()
			if v := sw.c01FinalOracle(final, log); v != "" {
				return v, sw.class(), ""
			}
			want := "b " + sw.files["b2"].hash()
			have := false
			for _, f := range final {
				have = have || f == want
			}
			if !have {
				var left []string
				for _, e := range stage {
					if !e.Dir {
						left = append(left, e.Path)
					}
				}
				return fmt.Sprintf("both parts of version 2 of b were acknowledged (errors %v) and its predecessor p was delivered, yet version 2 is not in the final directory: final=%v log=%v staging=%v", sw.errs, final, log, left), sw.class(), ""
			}
			return "", "", fmt.Sprintf("final=%d log=%d", len(final), len(log))
		}
	}}
}

// scenarioChainTwoConnections (C04): file a and its successor b (predecessor a) complete on two
// connections at the same time, so that their validations and their pushes onto the finalize
// chain interleave. b must never be logged / delivered before a.
func scenarioChainTwoConnections(bound int) *vh.SchedScenario {
	return &vh.SchedScenario{Name: "chain-on-two-connections", Bound: bound, Build: func(x *vrt.Sched) func(*vrt.Sched) (string, string, string) {
		files := []*sFile{
			{Key: "a1", Name: "a", Data: "AAAA", Cuts: []int64{0, 4}},
			{Key: "b1", Name: "b", Prev: "a", Data: "BBBB", Cuts: []int64{0, 4}},
		}
		sw := newSchedWorld(files)
		x.Go("conn1", func() { sw.recv("a1", 0, false) })
		x.Go("conn2", func() { sw.recv("b1", 0, false) })
		return func(x *vrt.Sched) (string, string, string) {
			defer sw.close()
			if x.Deadlock != "" || x.Diverged != "" {
				return "", "", ""
			}
			final, log, stage := sw.finish()
			ia, ib := -1, -1
			for i, rec := range log {
				switch strings.Split(rec, "|")[0] {
				case "a":
					if ia < 0 {
						ia = i
					}
				case "b":
					if ib < 0 {
						ib = i
					}
				}
			}
			if ib >= 0 && (ia < 0 || ib < ia) {
				return fmt.Sprintf("b (predecessor a) is logged as received before a: log=%v final=%v", log, final), sw.class(), ""
			}
			if len(final) != 2 {
				return fmt.Sprintf("a and b were both acknowledged, yet not both were delivered: final=%v log=%v stage=%v", final, log, stageNames(stage)), sw.class(), ""
			}
			return "", "", fmt.Sprintf("log=%v", log)
		}
	}}
}

// scenarioDuplicateOnTwoConnections (C05): the same single-part file is transmitted twice at the
// same time (the answer to the first request was lost, the sender repeats it while the first is
// still being processed). One delivery, one log record, and the poll says passed.
func scenarioDuplicateOnTwoConnections(twoParts bool, bound int) *vh.SchedScenario {
	name := "same-file-on-two-connections"
	if twoParts {
		name = "same-two-part-file-on-two-connections"
	}
	return &vh.SchedScenario{Name: name, Bound: bound, Build: func(x *vrt.Sched) func(*vrt.Sched) (string, string, string) {
		files := []*sFile{{Key: "a1", Name: "a", Data: "AAAA", Cuts: []int64{0, 4}}}
		if twoParts {
			files = []*sFile{{Key: "a1", Name: "a", Data: "AAAABBBB", Cuts: []int64{0, 4, 8}}}
		}
		sw := newSchedWorld(files)
		if twoParts {
			sw.recv("a1", 0, false) // sequential prefix
			x.Go("conn1", func() { sw.recv("a1", 1, false) })
			x.Go("conn2", func() { sw.recv("a1", 0, false); sw.recv("a1", 1, false) })
		} else {
			x.Go("conn1", func() { sw.recv("a1", 0, false) })
			x.Go("conn2", func() { sw.recv("a1", 0, false) })
		}
		return func(x *vrt.Sched) (string, string, string) {
			defer sw.close()
			if x.Deadlock != "" || x.Diverged != "" {
				return "", "", ""
			}
			final, log, stage := sw.finish()
			nrec := 0
			for _, rec := range log {
				if strings.HasPrefix(rec, "a|") {
					nrec++
				}
			}
			status := sw.w.st.GetFileStatus("a", sw.ftime())
			if nrec > 1 {
				return fmt.Sprintf("a was transmitted twice at the same time and is recorded %d times in the receive log (no crash): log=%v final=%v", nrec, log, final), sw.class(), ""
			}
			if nrec == 1 && status != sts.ConfirmPassed {
				return fmt.Sprintf("a was delivered and logged, yet after the overlapping retransmission the poll answers %d (not passed): the sender would send it again; staging=%v", status, stageNames(stage)), sw.class(), ""
			}
			if nrec == 0 || len(final) != 1 {
				return fmt.Sprintf("a was acknowledged on both connections but is not delivered exactly once: final=%v log=%v staging=%v errors=%v", final, log, stageNames(stage), sw.errs), sw.class(), ""
			}
			return "", "", fmt.Sprintf("delivered once, errors=%v", sw.errs)
		}
	}}
}

// scenarioPollDuringValidation (C02): the last part of a file that was damaged in transit arrives
// on one connection while the sender's poll for that file is answered on another. A positive
// answer ('passed' or 'waiting') is final for the sender, so it may only be given for content
// that is held validated in the end.
func scenarioPollDuringValidation(bound int) *vh.SchedScenario {
	return &vh.SchedScenario{Name: "poll-during-validation-of-a-damaged-file", Bound: bound, Build: func(x *vrt.Sched) func(*vrt.Sched) (string, string, string) {
		files := []*sFile{{Key: "a1", Name: "a", Data: "AAAABBBB", Cuts: []int64{0, 4, 8}}}
		sw := newSchedWorld(files)
		sw.recv("a1", 0, true) // sequential prefix: part 0 arrives damaged
		status := -1
		x.Go("conn", func() { sw.recv("a1", 1, false) })
		x.Go("poll", func() { status = sw.w.st.GetFileStatus("a", sw.ftime()) })
		return func(x *vrt.Sched) (string, string, string) {
			defer sw.close()
			if x.Deadlock != "" || x.Diverged != "" {
				return "", "", ""
			}
			final, log, stage := sw.finish()
			if status == sts.ConfirmPassed || status == sts.ConfirmWaiting {
				return fmt.Sprintf("the poll for a was answered %d (positive, final for the sender) although the only copy the receiver ever had was damaged in transit: final=%v log=%v staging=%v", status, final, log, stageNames(stage)), sw.class(), ""
			}
			return "", "", fmt.Sprintf("status=%d", status)
		}
	}}
}

func TestC02Sched(t *testing.T) {
	b := 2
	if vh.Thorough() {
		b = 3
	}
	runSchedScenarios(t, "C02", "a poll answered while the file is being validated (E-SCHED)", []*vh.SchedScenario{scenarioPollDuringValidation(b)},
		fmt.Sprintf("all interleavings with <= %d preemptions of the reception of the last part of a two-part file whose first part was damaged in transit (validation will fail) against a status poll for that file, with the stage's validators and finalizer: the poll must not be answered 'passed' or 'waiting'", b))
}

func TestC05Sched(t *testing.T) {
	b := 1
	if vh.Thorough() {
		b = 2
	}
	runSchedScenarios(t, "C05", "a retransmission overlapping the original (E-SCHED)", []*vh.SchedScenario{
		scenarioDuplicateOnTwoConnections(false, b), scenarioDuplicateOnTwoConnections(true, b),
	}, fmt.Sprintf("all interleavings with <= %d preemptions of two connections delivering the same single-part file, and of the last part of a two-part file on one connection against both parts again on another, with the stage's validators and finalizer: one delivery, one log record, poll answers passed", b))
}

func TestC04Sched(t *testing.T) {
	b := 1
	if vh.Thorough() {
		b = 2
	}
	runSchedScenarios(t, "C04", "a file and its successor completing on two connections (E-SCHED)", []*vh.SchedScenario{scenarioChainTwoConnections(b)},
		fmt.Sprintf("all interleavings with <= %d preemptions of two connections delivering a single-part file and its successor (announced predecessor = the first file), with the stage's validators, finalizer and the goroutines that push onto the finalize chain", b))
}

// scenarioSupersededDuringLookup: version 1 of b announces a predecessor p that the receiver
// knows only from its receive log (an earlier run). While the finalizer looks p up in the log,
// a second connection delivers version 2 of b. What ends up in the final directory must carry
// the hash the log records for it.
func scenarioSupersededDuringLookup(bound int) *vh.SchedScenario {
	return &vh.SchedScenario{Name: "superseded-while-predecessor-is-looked-up", Bound: bound, Build: func(x *vrt.Sched) func(*vrt.Sched) (string, string, string) {
		files := []*sFile{
			{Key: "b1", Name: "b", Prev: "p", Data: "CCCCDD", Cuts: []int64{0, 6}},
			{Key: "b2", Name: "b", Prev: "p", Data: "ccccdd", Cuts: []int64{0, 6}},
		}
		sw := newSchedWorldPre(files, func(w *rw) {
			c04Prelog(w, c04Scenario{Prelog: map[string]time.Duration{"p": time.Minute}})
		})
		// version 2 is transmitted only after the reception of version 1 has returned (a sender never
		// transmits two versions of a file at once), but it races with version 1's validation,
		// predecessor look-up and finalization
		v1in := make(chan struct{})
		x.Go("conn1", func() { sw.recv("b1", 0, false); close(v1in) })
		x.Go("conn2", func() { <-v1in; sw.recv("b2", 0, false) })
		return func(x *vrt.Sched) (string, string, string) {
			defer sw.close()
			if x.Deadlock != "" || x.Diverged != "" {
				return "", "", ""
			}
			final, log, _ := sw.finish()
			var mine []string
			for _, rec := range log {
				if strings.HasPrefix(rec, "b|") {
					mine = append(mine, rec)
				}
			}
			if v := sw.c01FinalOracle(final, mine); v != "" {
				return v + fmt.Sprintf(" (log=%v)", log), sw.class(), ""
			}
			// (a stale validation of version 1 may mark the name failed: the sender is then told so and
			// sends version 2 again - no integrity matter. What must not happen is a positive answer
			// without version 2 in place.)
			status := sw.w.st.GetFileStatus("b", sw.ftime())
			want := "b " + sw.files["b2"].hash()
			if (status == sts.ConfirmPassed || status == sts.ConfirmWaiting) && (len(final) != 1 || final[0] != want) {
				return fmt.Sprintf("the poll for b answers %d after version 2 was acknowledged, yet the final directory does not hold version 2: final=%v log=%v errors=%v", status, final, log, sw.errs), sw.class(), ""
			}
			return "", "", fmt.Sprintf("final=%v records=%d", final, len(mine))
		}
	}}
}

func runSchedScenarios(t *testing.T, prop, partName string, scs []*vh.SchedScenario, bound string) {
	rep := vh.NewReport(prop, partName)
	defer rep.Write()
	for _, sc := range scs {
		if only := os.Getenv("VERIF_SCENARIO"); only != "" && only != sc.Name {
			continue
		}
		n0 := rep.Executions
		vh.ExploreSched(t, rep, sc)
		rep.Count("executions["+sc.Name+"]", rep.Executions-n0)
	}
	rep.Bound = bound
}

func TestC09Sched(t *testing.T) {
	b := 2
	scs := []*vh.SchedScenario{scenarioTwoParts(false, b), scenarioTwoParts(true, b), scenarioTwoFiles(false, 1)}
	if vh.Thorough() {
		scs = append(scs, scenarioTwoParts(false, 3), scenarioTwoFiles(false, 2), scenarioTwoFiles(true, 2))
	}
	runSchedScenarios(t, "C09", "concurrent receptions (E-SCHED)", scs, fmt.Sprintf("all interleavings with <= %d preemptions of: two connections receiving the two parts of one file (with and without a third thread that runs Scan and Received), two connections completing two different files (quick: <= 1 preemption; thorough: <= 2, also with two parts each, and two parts of one file with <= 3 preemptions); scheduling points at every lock operation, file-system mutation and goroutine start of package stage", b))
}

func TestC01Sched(t *testing.T) {
	b := 2
	bh := 1 // the held-file scenario has many more scheduling points (finalizer, timers): thorough tier only
	scs := []*vh.SchedScenario{scenarioNewVersion(b), scenarioTwoParts(false, b), scenarioSupersededDuringLookup(1)}
	if vh.Thorough() {
		scs = append(scs, scenarioHeldVsNewVersion(bh))
	}
	runSchedScenarios(t, "C01", "concurrent connections, new version during validation (E-SCHED)", scs, fmt.Sprintf("all interleavings with <= %d preemptions of: last part of version 1 of a file on one connection, both parts of a corrupted version 2 (same name and size) on another, with the stage's validators and finalizer; and of the release of a held version (its predecessor arrives on one connection) against the two parts of a new version of the held file on another (thorough tier only, <= %d preemption)", b, bh))
}

// ---------------------------------------------------------------- C20: cleaning concurrent with a transfer

// scenarioCleanVsTransfer: CleanNow runs while the last part of a file arrives, is validated and
// finalized; optionally two files are held in a predecessor cycle, so that the cleaner walks the
// wait map (and re-enters the cache lock). Deadlock is a violation ("cleaning can run at any
// time"); nothing of the file in flight may be lost.
func scenarioCleanVsTransfer(cycle bool, bound int) *vh.SchedScenario {
	name := "clean-vs-last-part"
	if cycle {
		name = "clean-with-cycle-vs-last-part"
	}
	return &vh.SchedScenario{Name: name, Bound: bound, Build: func(x *vrt.Sched) func(*vrt.Sched) (string, string, string) {
		files := []*sFile{
			{Key: "a1", Name: "a", Data: "AAAABBBB", Cuts: []int64{0, 4, 8}},
			{Key: "p1", Name: "p", Prev: "q", Data: "PPPP", Cuts: []int64{0, 4}},
			{Key: "q1", Name: "q", Prev: "p", Data: "QQQQ", Cuts: []int64{0, 4}},
		}
		sw := newSchedWorld(files)
		sw.recv("a1", 0, false) // sequential prefix
		if cycle {
			sw.recv("p1", 0, false)
			sw.recv("q1", 0, false)
			sw.w.settle()
		}
		x.Go("conn", func() { sw.recv("a1", 1, false) })
		x.Go("cleaner", func() { sw.w.st.CleanNow() })
		return func(x *vrt.Sched) (string, string, string) {
			defer sw.close()
			if x.Deadlock != "" {
				return "cleaning concurrent with a transfer does not terminate", "", ""
			}
			if x.Diverged != "" {
				return "", "", ""
			}
			final, log, stage := sw.finish()
			if sw.errs["a1.1"] != nil {
				return "", "", "receive error"
			}
			f := sw.files["a1"]
			found := false
			for _, x := range final {
				if x == f.target()+" "+f.hash() {
					found = true
				}
			}
			if !found {
				return fmt.Sprintf("the file whose last part arrived while the cleaner ran was not delivered: final=%v log=%v stage=%v", final, log, stageNames(stage)), sw.class(), ""
			}
			if v := sw.c01FinalOracle(final, log); v != "" {
				return v, sw.class(), ""
			}
			return "", "", fmt.Sprintf("delivered=%d", len(final))
		}
	}}
}

// scenarioCleanStaleVsNewVersion: a stale (two days old) duplicate partial + companion of a version
// of x that was delivered in an earlier run (known from the receive log only) lies in the staging
// area, so the cleaner's verdict for it is "remove". While the cleaner is at work a connection
// delivers a NEW version of x in two parts (held afterwards for a predecessor that does not come).
// Whatever the cleaner does with the stale duplicate, every acknowledged byte of the new version
// must still be there: body complete and held, companion naming the new hash.
func scenarioCleanStaleVsNewVersion(bound int) *vh.SchedScenario {
	return &vh.SchedScenario{Name: "clean-stale-duplicate-vs-new-version", Bound: bound, Build: func(x *vrt.Sched) func(*vrt.Sched) (string, string, string) {
		files := []*sFile{
			{Key: "x1", Name: "x", Data: "XXXXYYYY", Cuts: []int64{0, 4, 8}},
			{Key: "x2", Name: "x", Prev: "p", Data: "xxxxyyyy", Cuts: []int64{0, 4, 8}},
		}
		h1 := files[0].hash()
		sw := newSchedWorldPre(files, func(w *rw) {
			now := time.Now()
			t := now.Add(-72 * time.Hour)
			p := filepath.Join(w.logDir, fmt.Sprintf("%04d%02d", t.Year(), t.Month()), fmt.Sprintf("%02d", t.Day()))
			_ = os.MkdirAll(filepath.Dir(p), 0755)
			if err := os.WriteFile(p, []byte(fmt.Sprintf("x::%s:%d:%d:\n", h1, 8, t.Unix())), 0644); err != nil {
				panic(err)
			}
			path := filepath.Join(w.stageDir, "x")
			if err := os.WriteFile(path+partExt, []byte("XXXX\x00\x00\x00\x00"), 0644); err != nil {
				panic(err)
			}
			cmp := &sts.Partial{Name: "x", Size: 8, Hash: h1, Source: "src", Parts: []*sts.ByteRange{{Beg: 0, End: 4}}}
			cmp.Time.Time = t
			if err := writeCompanion(path, cmp); err != nil {
				panic(err)
			}
			old := now.Add(-48 * time.Hour)
			_ = os.Chtimes(path+partExt, old, old)
			_ = os.Chtimes(path+compExt, old, old)
		})
		// What the cleaner removes, and when: the known finding "stale-verdict-races-new-version" is
		// the removal of x.part (which existed) - and, after that, of x.cmp - on a verdict made before
		// the connection started to use the path. A companion removed without its partial having been
		// removed by the cleaner, or any removal in an execution where the connection had not started
		// when the cleaner finished, is not that finding.
		var connStarted, cleanerDone atomic.Bool
		var cleanerID atomic.Uint64
		partRemoved, cmpAlone, overlapped := false, false, false
		inner := vos.Hook
		vos.Hook = func(op, p1, p2 string) error {
			err := inner(op, p1, p2) // the scheduling point: the operation itself follows without another one
			if op == "remove" && vrt.Goid() == cleanerID.Load() {
				sw.hmu.Lock()
				switch {
				case strings.HasSuffix(p1, "/x"+partExt):
					if exists(p1) {
						partRemoved = true
					}
				case strings.HasSuffix(p1, "/x"+compExt):
					if !partRemoved {
						cmpAlone = true
					}
				}
				if connStarted.Load() {
					overlapped = true
				}
				sw.hmu.Unlock()
			}
			return err
		}
		x.Go("conn", func() { connStarted.Store(true); sw.recv("x2", 0, false); sw.recv("x2", 1, false) })
		x.Go("cleaner", func() { cleanerID.Store(vrt.Goid()); sw.w.st.CleanNow(); cleanerDone.Store(true) })
		class := func() string {
			if c := sw.class(); c != "" {
				return c
			}
			if overlapped && partRemoved && !cmpAlone {
				return "stale-verdict-races-new-version"
			}
			return ""
		}
		return func(x *vrt.Sched) (string, string, string) {
			defer sw.close()
			if x.Deadlock != "" {
				return "cleaning concurrent with a transfer does not terminate", "", ""
			}
			if x.Diverged != "" {
				return "", "", ""
			}
			_, log, stage := sw.finish()
			if sw.errs["x2.0"] != nil || sw.errs["x2.1"] != nil {
				return "", "", fmt.Sprintf("receive error: %v", sw.errs)
			}
			f := sw.files["x2"]
			body, held := sw.w.staged("x", waitExt)
			cmp, _ := readLocalCompanion(filepath.Join(sw.w.stageDir, "x"), "x")
			if !held || string(body) != f.Data || cmp == nil || cmp.Hash != f.hash() {
				ch := "none"
				if cmp != nil {
					ch = cmp.Hash
				}
				return fmt.Sprintf("both parts of the new version of x were acknowledged while the cleaner dealt with a stale duplicate of the delivered version; afterwards the new version is not held complete in the staging area with its companion (held body=%q, companion hash=%s, want %s): stage=%v log=%v", body, ch, f.hash(), stageNames(stage), log), class(), ""
			}
			return "", "", fmt.Sprintf("stage=%v", stageNames(stage))
		}
	}}
}

func TestC20Sched(t *testing.T) {
	b := 1
	if vh.Thorough() {
		b = 2
	}
	runSchedScenarios(t, "C20", "cleaning concurrent with a transfer (E-SCHED)", []*vh.SchedScenario{
		scenarioCleanVsTransfer(false, 2), scenarioCleanVsTransfer(true, b), scenarioCleanStaleVsNewVersion(2),
	}, fmt.Sprintf("all interleavings with <= 2 (with the cycle: <= %d) preemptions of CleanNow against the reception of the last part of a file with its validation and finalization, without and with two other files held in a predecessor cycle (the cleaner then walks the wait map and re-enters the cache lock); CleanNow against the two parts of a new version of a name whose stale duplicate of a delivered version (known from the log) is due for removal (<= 2 preemptions); deadlock = violation", b))
}

// ---------------------------------------------------------------- C15: a request arriving around the start of recovery

// scenarioRecoveryWindow: main/server.go creates the stage (ready) and starts `go stager.Recover()`;
// a request thread checks Ready() as http.Server.handleValidate does and then delivers a part.
// A request that passes the readiness test while recovery has not finished races with it.
func scenarioRecoveryWindow(bound int) *vh.SchedScenario {
	return &vh.SchedScenario{Name: "request-vs-start-of-recovery", Bound: bound, Build: func(x *vrt.Sched) func(*vrt.Sched) (string, string, string) {
		files := []*sFile{{Key: "a1", Name: "a", Data: "AAAABBBB", Cuts: []int64{0, 4, 8}}}
		sw := newSchedWorld(files)
		sw.recv("a1", 0, false) // something for Recover to look at
		var done atomic.Bool
		raced := ""
		x.Go("recover", func() { sw.w.st.Recover(); done.Store(true) })
		x.Go("request", func() {
			if !sw.w.st.Ready() {
				return // answered 503
			}
			if !done.Load() {
				sw.hmu.Lock()
				closed := sw.notReady
				sw.hmu.Unlock()
				raced = fmt.Sprintf("the readiness test let a request through while recovery had %s", map[bool]string{false: "not yet closed the gate (the stage is created ready, and `go Recover()` clears the flag only when it gets to run)", true: "closed the gate and not finished"}[closed])
			}
			sw.recv("a1", 1, false)
		})
		return func(x *vrt.Sched) (string, string, string) {
			defer sw.close()
			if x.Deadlock != "" || x.Diverged != "" {
				return "", "", ""
			}
			sw.finish()
			if raced != "" {
				cl := ""
				if strings.Contains(raced, "not yet closed the gate") {
					cl = "ready-before-recover-starts"
				}
				return raced, cl, ""
			}
			return "", "", fmt.Sprintf("done=%v", done)
		}
	}}
}

func TestC15Sched(t *testing.T) {
	runSchedScenarios(t, "C15", "request around the start of recovery (E-SCHED)", []*vh.SchedScenario{scenarioRecoveryWindow(2)},
		"all interleavings with <= 2 preemptions of `go stager.Recover()` (as started by serverApp.init) against a request thread that performs handleValidate's readiness test and then delivers a part")
}

// ---------------------------------------------------------------- free-running -race pass (diagnostic)

// TestSchedRace runs the bodies of all E-SCHED scenarios without scheduling control; the driver
// builds this test with -race (`./check race`). It decides no property: it covers the blind spot
// of the cooperative scheduler (accesses that no lock orders).
func TestSchedRace(t *testing.T) {
	rep := vh.NewReport("race", "free-running -race pass over the E-SCHED scenario bodies (diagnostic)")
	defer rep.Write()
	n := 40
	for _, sc := range []*vh.SchedScenario{
		scenarioTwoParts(false, 0), scenarioTwoParts(true, 0), scenarioTwoFiles(false, 0), scenarioTwoFiles(true, 0),
		scenarioNewVersion(0), scenarioPollDuringValidation(0), scenarioSupersededDuringLookup(0), scenarioChainTwoConnections(0), scenarioDuplicateOnTwoConnections(false, 0), scenarioDuplicateOnTwoConnections(true, 0), scenarioHeldVsNewVersion(0), scenarioCleanVsTransfer(false, 0), scenarioCleanVsTransfer(true, 0), scenarioCleanStaleVsNewVersion(0), scenarioRecoveryWindow(0),
	} {
		vh.FreeRunSched(t, rep, sc, n)
	}
	rep.Bound = fmt.Sprintf("%d free-running executions of each E-SCHED scenario body under the race detector", n)
}
