//go:build verif

package stage

import (
	"fmt"
	"strings"
	"testing"

	"github.com/arm-doe/sts/internal/verif/vh"
)

// C20: staging clean-up removes only what is already delivered.

func c20Files() []*sFile {
	return []*sFile{
		{Key: "a1", Name: "a", Data: "AAAABBBB", Cuts: []int64{0, 4, 8}},
		{Key: "a2", Name: "a", Data: "aaaabbbb", Cuts: []int64{0, 4, 8}}, // new version of the same name
		{Key: "b1", Name: "d/b", Prev: "a", Data: "CCCC", Cuts: []int64{0, 4}},
	}
}

func c20Alphabet(files []*sFile, thorough bool) func(hist []sAction) []sAction {
	return func(hist []sAction) []sAction {
		var out []sAction
		a1done := histCount(hist, "recv", "a1", 0) > 0 && histCount(hist, "recv", "a1", 1) > 0
		for _, f := range files {
			if f.Key == "a2" && !a1done && !thorough {
				continue // quick: the new version appears after the old one was transmitted
			}
			for p := 0; p < len(f.Cuts)-1; p++ {
				if histCount(hist, "recv", f.Key, p) < 2 {
					out = append(out, sAction{Op: "recv", F: f.Key, P: p})
				}
			}
		}
		if histCount(hist, "recvbad", "", 0) < 1 {
			out = append(out, sAction{Op: "recvbad", F: "a1", P: 0})
		}
		if histCount(hist, "short", "", 0) < 1 {
			out = append(out, sAction{Op: "short", F: "a1", P: 0}, sAction{Op: "short", F: "b1", P: 0})
			if a1done || thorough {
				// the first part of the new version is cut short: its partial exists, its companion not yet
				out = append(out, sAction{Op: "short", F: "a2", P: 0})
			}
		}
		if histCount(hist, "adv12h", "", 0) < 1 {
			out = append(out, sAction{Op: "adv12h"})
		}
		if histCount(hist, "adv25h", "", 0) < 2 {
			out = append(out, sAction{Op: "adv25h"})
		}
		if histCount(hist, "clean", "", 0) < 2 {
			out = append(out, sAction{Op: "clean"})
		}
		if histCount(hist, "prune0", "", 0)+histCount(hist, "prune1h", "", 0) < 1 {
			out = append(out, sAction{Op: "prune0"}, sAction{Op: "prune1h"})
		}
		for _, op := range []string{"restart", "age"} {
			if histCount(hist, op, "", 0) < 1 {
				out = append(out, sAction{Op: op})
			}
		}
		return out
	}
}

func isCleaningStep(op string) bool {
	switch op {
	case "clean", "prune0", "prune1h", "adv12h", "adv25h", "adv30m", "adv10s", "adv40d", "age":
		return true
	}
	return false
}

// inFlight replays the history's bookkeeping: per source name the version on record at the
// receiver, the parts of it that were acknowledged, and whether its transmission is tainted
// (a corrupted or failed part: re-sending the whole file is then legitimate).
type c20Flight struct {
	cur     string
	acked   map[int]bool
	tainted bool
}

func (s *sim) inFlight() map[string]*c20Flight {
	out := map[string]*c20Flight{}
	for _, st := range s.steps {
		f := s.files[st.Act.F]
		if f == nil {
			continue
		}
		fl := out[f.Name]
		if fl == nil {
			fl = &c20Flight{acked: map[int]bool{}}
			out[f.Name] = fl
		}
		switch st.Act.Op {
		case "recv", "recvbad":
			if st.Err != "" {
				fl.tainted = true
				continue
			}
			if fl.cur != f.Key {
				fl.cur, fl.acked, fl.tainted = f.Key, map[int]bool{}, false
			}
			fl.acked[st.Act.P] = true
			if st.Act.Op == "recvbad" {
				fl.tainted = true
			}
		case "short":
			if fl.cur != f.Key {
				fl.tainted = true // a failed part of another version: the record may be disturbed (C09 finding)
			}
		}
	}
	return out
}

func (s *sim) wasDelivered(f *sFile, log []string) bool {
	for _, c := range s.w.consumed {
		if c == f.target()+" "+f.hash() {
			return true
		}
	}
	for _, r := range log {
		if strings.HasPrefix(r, f.Name+"|") && strings.HasSuffix(r, "|"+f.hash()) {
			return true
		}
	}
	return false
}

func c20Check(s *sim, _ bool) vh.HistResult {
	res := vh.HistResult{Enabled: true}
	i := len(s.steps) - 1
	st := s.steps[i]
	hashDelivered := func(name, hash string) bool {
		for _, k := range s.order {
			f := s.files[k]
			if f.Name == name && (hash == "" || f.hash() == hash) && s.wasDelivered(f, st.LogAfter) {
				return true
			}
		}
		return false
	}
	if isCleaningStep(st.Act.Op) {
		for _, ch := range st.Changed {
			if strings.HasSuffix(ch, compExt) {
				continue
			}
			res.Viol = fmt.Sprintf("step %d %s: staged file %s was modified by cleaning\n%s", i, st.Act, ch, s.trace())
			return res
		}
		for _, rm := range st.Removed {
			fields := strings.Fields(rm)
			path := fields[0]
			ext := ""
			for _, e := range []string{partExt, compExt, fullExt, waitExt} {
				if strings.HasSuffix(path, e) {
					ext = e
				}
			}
			if ext == "" {
				continue // e.g. a companion's temporary file
			}
			name := strings.TrimSuffix(path, ext)
			hash := st.CmpBefore[name] // "" if the partial had no companion: only the name can be compared
			if ext == partExt && hash != "" {
				// a left-over duplicate partial of a version whose validated body is held (waiting
				// for its predecessor): the held data is the .wait file, nothing is lost
				held := false
				for _, e := range st.Stage {
					if e.Path == name+waitExt && e.MD5 == hash {
						held = true
					}
				}
				if held {
					continue
				}
			}
			if age := fields[len(fields)-1]; st.Act.Op == "clean" && hash == "" && ext == partExt && (age == "<1h" || age == "<24h") {
				// no companion yet: the cleaner cannot know which version this is, and a partial younger
				// than the threshold may be a transfer that has just been prepared
				res.Viol = fmt.Sprintf("step %d %s: cleaning removed %s, a partial without companion (age %s, threshold 24 h): nothing says that this version was delivered, and a transfer that was just prepared loses its staged file\n%s",
					i, st.Act, path, age, s.trace())
				return res
			}
			if !hashDelivered(name, hash) {
				res.Viol = fmt.Sprintf("step %d %s: cleaning removed %s (companion hash %q, age %s) although that version of %s was neither delivered nor logged as received\n%s",
					i, st.Act, path, hash, fields[len(fields)-1], name, s.trace())
				if ext == partExt && hash != "" && hashDelivered(name, "") {
					res.Class = "clean-strays-name-only"
				}
				return res
			}
		}
		for _, rd := range st.RmDirs {
			fields := strings.Fields(rd)
			age := fields[1]
			if st.Act.Op != "prune0" && st.Act.Op != "prune1h" {
				res.Viol = fmt.Sprintf("step %d %s: directory %s removed by something other than Prune\n%s", i, st.Act, fields[0], s.trace())
				return res
			}
			if st.Act.Op == "prune1h" && age == "<1h" {
				res.Viol = fmt.Sprintf("step %d %s: directory %s removed although younger than the given age (%s)\n%s", i, st.Act, fields[0], age, s.trace())
				return res
			}
			// it was empty, or everything in it was a directory that was removed as well
			for _, e := range st.Before {
				if strings.HasPrefix(e.Path, fields[0]+"/") && !e.Dir {
					res.Viol = fmt.Sprintf("step %d %s: directory %s removed although it held %s\n%s", i, st.Act, fields[0], e.Path, s.trace())
					return res
				}
			}
		}
		// ---- afterwards every in-flight transfer completes with no part sent twice
		flights := s.inFlight()
		tainted := false
		for _, fl := range flights {
			tainted = tainted || fl.tainted
		}
		if !tainted && len(st.Removed)+len(st.RmDirs) > 0 {
			var expect []*sFile
			for _, k := range s.order {
				f := s.files[k]
				fl := flights[f.Name]
				if fl == nil || fl.cur != k || s.wasDelivered(f, st.LogAfter) {
					continue
				}
				for p := 0; p < len(f.Cuts)-1; p++ {
					if !fl.acked[p] {
						s.apply(sAction{Op: "recv", F: k, P: p}, false)
					}
				}
				expect = append(expect, f)
			}
			if len(expect) > 0 {
				s.apply(sAction{Op: "adv10s"}, true)
				lastLog := s.steps[len(s.steps)-1].LogAfter
				for _, f := range expect {
					if f.Prev != "" {
						pd := false
						for _, k := range s.order {
							if s.files[k].Name == f.Prev && s.wasDelivered(s.files[k], lastLog) {
								pd = true
							}
						}
						if !pd {
							continue
						}
						// (the version of the predecessor on record may have failed validation after an
						// earlier version was delivered - then the successor waits until the sender has
						// sent the predecessor again, whatever the cleaner did)
						if s.steps[len(s.steps)-1].States[f.Prev] == stateFailed {
							continue
						}
					}
					if !s.wasDelivered(f, lastLog) {
						res.Viol = fmt.Sprintf("after step %d %s the harness sent exactly the parts of %s that had not been acknowledged, yet the file is not delivered: cleaning destroyed acknowledged data (retransmission needed)\n%s", i, st.Act, f.Key, s.trace())
						return res
					}
				}
			}
			res.Final = true // the probe changed the world; do not extend this path (its prefix state is extended elsewhere)
			res.Digest = ""
			res.Outcome = fmt.Sprintf("%s removed=%d rmdirs=%d probe", st.Act.Op, len(st.Removed), len(st.RmDirs))
			return res
		}
	}
	res.Outcome = fmt.Sprintf("%s removed=%d rmdirs=%d", st.Act.Op, len(st.Removed), len(st.RmDirs))
	res.Digest = s.digest()
	return res
}

func TestC20(t *testing.T) {
	depth := 5
	if vh.Thorough() {
		depth = 7
	}
	files := c20Files()
	runSimCheck(t, "C20", "stage cleaning histories (E-HIST)", files, c20Alphabet(files, vh.Thorough()), c20Check, depth,
		fmt.Sprintf("all histories up to length %d over: file a (2 parts) in two versions, file d/b (1 part, predecessor a, in a sub-directory); parts received up to twice, one corrupted part, one part cut short (leaves a stray partial), clock +12 h / +25 h (x2), CleanNow (x2), Prune(0) or Prune(1 h), cache ageing, orderly restart; the staging tree is compared across every cleaning, pruning and clock step, and after a step that removed something the harness sends exactly the unacknowledged parts and expects delivery", depth))
}

// TestC20Held: cleaning while a validated version is held for its predecessor and a new
// version of the same name is arriving.
func TestC20Held(t *testing.T) {
	files := []*sFile{
		{Key: "p1", Name: "p", Data: "PPPP", Cuts: []int64{0, 4}},
		{Key: "b1", Name: "b", Prev: "p", Data: "CCCCDD", Cuts: []int64{0, 6}},
		{Key: "b2", Name: "b", Prev: "p", Data: "ccccdd", Cuts: []int64{0, 4, 6}, TimeOff: 60},
	}
	alphabet := func(hist []sAction) []sAction {
		var out []sAction
		b1done := histCount(hist, "recv", "b1", 0) > 0
		for _, f := range files {
			if f.Key == "b2" && !b1done {
				continue
			}
			for p := 0; p < len(f.Cuts)-1; p++ {
				if histCount(hist, "recv", f.Key, p) < 1 {
					out = append(out, sAction{Op: "recv", F: f.Key, P: p})
				}
			}
		}
		if histCount(hist, "adv25h", "", 0) < 2 {
			out = append(out, sAction{Op: "adv25h"})
		}
		if histCount(hist, "clean", "", 0) < 2 {
			out = append(out, sAction{Op: "clean"})
		}
		for _, op := range []string{"restart", "prune0"} {
			if histCount(hist, op, "", 0) < 1 {
				out = append(out, sAction{Op: op})
			}
		}
		return out
	}
	depth := 6
	if vh.Thorough() {
		depth = 8
	}
	runSimCheck(t, "C20", "cleaning around a held file that is superseded by a new version (E-HIST)", files, alphabet, c20Check, depth,
		fmt.Sprintf("all histories up to length %d over: file p (1 part), file b version 1 (1 part, predecessor p) and, after it, version 2 (2 parts); every part once, clock +25 h (x2), CleanNow (x2), Prune(0), orderly restart", depth))
}

// TestC20Hidden: pruning and cleaning around a file with a hidden name (legal with the sender's
// include-hidden option) that is alone in its directory: its partial, companion, complete and
// held bodies all have names that start with a dot.
func TestC20Hidden(t *testing.T) {
	files := []*sFile{
		{Key: "h1", Name: "e/.h", Data: "HHHHIIII", Cuts: []int64{0, 4, 8}},
		{Key: "k1", Name: "e2/.k", Prev: "e/.h", Data: "KKKK", Cuts: []int64{0, 4}}, // held until e/.h is delivered
	}
	alphabet := func(hist []sAction) []sAction {
		var out []sAction
		for _, f := range files {
			for p := 0; p < len(f.Cuts)-1; p++ {
				if histCount(hist, "recv", f.Key, p) < 1 {
					out = append(out, sAction{Op: "recv", F: f.Key, P: p})
				}
			}
		}
		if histCount(hist, "adv12h", "", 0) < 1 {
			out = append(out, sAction{Op: "adv12h"})
		}
		if histCount(hist, "adv25h", "", 0) < 1 {
			out = append(out, sAction{Op: "adv25h"})
		}
		if histCount(hist, "prune0", "", 0)+histCount(hist, "prune1h", "", 0) < 2 {
			out = append(out, sAction{Op: "prune0"}, sAction{Op: "prune1h"})
		}
		for _, op := range []string{"clean", "restart"} {
			if histCount(hist, op, "", 0) < 1 {
				out = append(out, sAction{Op: op})
			}
		}
		return out
	}
	depth := 5
	if vh.Thorough() {
		depth = 7
	}
	runSimCheck(t, "C20", "pruning and cleaning around files with hidden names (E-HIST)", files, alphabet, c20Check, depth,
		fmt.Sprintf("all histories up to length %d over: file e/.h (2 parts) and file e2/.k (1 part, predecessor e/.h), each alone in its directory; every part once, clock +12 h / +25 h, Prune(0) / Prune(1 h) (x2), CleanNow, orderly restart", depth))
}
