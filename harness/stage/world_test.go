//go:build verif

package stage

import (
	"bytes"
	"fmt"
	"io"
	"os"
	"path/filepath"
	"sort"
	"strings"
	"testing/synctest"
	"time"

	"github.com/arm-doe/sts"
	"github.com/arm-doe/sts/internal/verif/vh"
	"github.com/arm-doe/sts/internal/verif/vos"
	"github.com/arm-doe/sts/log"
	"github.com/arm-doe/sts/marshal"
)

func init() {
	log.InitExternal(vh.NullLogger{})
	os.Setenv("TZ", "UTC")
}

// version is one version of a source file.
type version struct {
	Name    string
	Renamed string
	Data    []byte
	Hash    string
	Time    time.Time
}

func mkVersion(name, renamed string, data string, t time.Time) *version {
	return &version{Name: name, Renamed: renamed, Data: []byte(data), Hash: vh.MD5([]byte(data)), Time: t}
}

// vPart implements sts.Binned.
type vPart struct {
	v        *version
	prev     string
	beg, end int64
	hash     string // announced hash (normally v.Hash)
	size     int64  // announced size (normally len(v.Data))
}

func (p *vPart) GetName() string          { return p.v.Name }
func (p *vPart) GetRenamed() string       { return p.v.Renamed }
func (p *vPart) GetPrev() string          { return p.prev }
func (p *vPart) GetFileTime() time.Time   { return p.v.Time }
func (p *vPart) GetFileHash() string      { return p.hash }
func (p *vPart) GetFileSize() int64       { return p.size }
func (p *vPart) GetSendSize() int64       { return p.size }
func (p *vPart) GetSlice() (int64, int64) { return p.beg, p.end } // as payload.fileMeta does: (beg, end)

func part(v *version, prev string, beg, end int64) *vPart {
	return &vPart{v: v, prev: prev, beg: beg, end: end, hash: v.Hash, size: int64(len(v.Data))}
}

// rw is a receiver world: one Stage with its real log in a sandbox.
type rw struct {
	root     string
	stageDir string
	finalDir string
	logDir   string
	st       *Stage
	lg       *log.FileIO
	consumed []string          // "relpath md5" of files taken out of the final directory, in order
	keep     bool              // delivered files stay in the final directory (no consumer)
	seen     map[string]string // keep mode: what was there at the last look
}

func newRW(root string) *rw {
	w := &rw{root: root,
		stageDir: filepath.Join(root, "stage", "src"),
		finalDir: filepath.Join(root, "final", "src"),
		logDir:   filepath.Join(root, "logs", "src"),
	}
	for _, d := range []string{w.stageDir, w.finalDir, w.logDir} {
		if err := os.MkdirAll(d, 0755); err != nil {
			panic(err)
		}
	}
	vos.FixTree(root)
	return w
}

func (w *rw) start() {
	w.lg = log.NewFileIO(w.logDir, nil, nil, true)
	w.st = New("src", w.stageDir, w.finalDir, w.lg, nil, nil)
}

// settle waits for quiescence and gives all files virtual time stamps.
func (w *rw) settle() {
	synctest.Wait()
	vos.FixTree(w.stageDir)
	vos.FixTree(w.finalDir)
}

// stop tears the stage down at quiescence so that the bubble can end.
func (w *rw) stop() {
	synctest.Wait()
	s := w.st
	s.cleanLock.Lock()
	if s.cleanTimeout != nil {
		s.cleanTimeout.Stop()
	}
	s.cleanLock.Unlock()
	s.cacheLock.RLock()
	for _, f := range s.cache {
		if f.wait != nil {
			f.wait.Stop()
		}
	}
	s.cacheLock.RUnlock()
	s.waitLock.RLock()
	for _, ff := range s.wait {
		for _, f := range ff {
			if f.wait != nil {
				f.wait.Stop()
			}
		}
	}
	s.waitLock.RUnlock()
	// a retry timer of an object that is neither cached nor on the wait list any more cannot be
	// reached from here: if it fires later it finds fresh buffered channels, not closed ones
	oldV, oldF := s.validateCh, s.finalizeCh
	if os.Getenv("VERIF_RACE") == "" {
		s.validateCh = make(chan *finalFile, 4096)
		s.finalizeCh = make(chan *finalFile, 4096)
	}
	close(oldV)
	close(oldF)
	w.lg.VerifClose()
	synctest.Wait()
}

// restart: stop at quiescence (an orderly shutdown), then a new Stage that runs Recover.
func (w *rw) restart() {
	w.stop()
	w.start()
	w.st.Recover()
	w.settle()
}

// receive does what http.Server.routeData does for one part: Prepare + Receive.
func (w *rw) receive(p *vPart, data []byte) error {
	w.st.Prepare([]sts.Binned{p})
	file := &sts.Partial{
		Name:    p.GetName(),
		Renamed: p.GetRenamed(),
		Prev:    p.GetPrev(),
		Size:    p.GetFileSize(),
		Time:    marshal.NanoTime{Time: p.GetFileTime()},
		Hash:    p.GetFileHash(),
		Source:  "src",
		Parts:   []*sts.ByteRange{{Beg: p.beg, End: p.end}},
	}
	err := w.st.Receive(file, bytes.NewReader(data))
	w.settle()
	return err
}

func (w *rw) receiveFrom(p *vPart, r io.Reader) error {
	w.st.Prepare([]sts.Binned{p})
	file := &sts.Partial{
		Name: p.GetName(), Renamed: p.GetRenamed(), Prev: p.GetPrev(), Size: p.GetFileSize(),
		Time: marshal.NanoTime{Time: p.GetFileTime()}, Hash: p.GetFileHash(), Source: "src",
		Parts: []*sts.ByteRange{{Beg: p.beg, End: p.end}},
	}
	err := w.st.Receive(file, r)
	w.settle()
	return err
}

// consume moves everything out of the final directory (as a downstream consumer would)
// and returns what it took: "relpath md5".
func (w *rw) consume() []string {
	var got []string
	for _, e := range vh.List(w.finalDir) {
		if e.Dir {
			continue
		}
		if w.keep {
			// nobody takes delivered files away: an arrival is a file that is new or has new content
			if w.seen == nil {
				w.seen = map[string]string{}
			}
			if w.seen[e.Path] == e.MD5 {
				continue
			}
			w.seen[e.Path] = e.MD5
			got = append(got, e.Path+" "+e.MD5)
			continue
		}
		got = append(got, e.Path+" "+e.MD5)
		_ = os.Remove(filepath.Join(w.finalDir, e.Path))
	}
	w.consumed = append(w.consumed, got...)
	return got
}

// logRecords returns the receive-log records in file order: "name|renamed|hash".
func (w *rw) logRecords() []string {
	var out []string
	var files []string
	_ = filepath.Walk(w.logDir, func(p string, info os.FileInfo, err error) error {
		if err == nil && !info.IsDir() {
			files = append(files, p)
		}
		return nil
	})
	sort.Strings(files)
	for _, f := range files {
		b, _ := os.ReadFile(f)
		for _, line := range strings.Split(string(b), "\n") {
			if line == "" {
				continue
			}
			parts := strings.Split(line, ":")
			if len(parts) >= 5 {
				out = append(out, parts[0]+"|"+parts[1]+"|"+parts[2])
			} else {
				out = append(out, "?"+line)
			}
		}
	}
	return out
}

// dump renders the stage's private state canonically.
func (w *rw) dump() string {
	s := w.st
	now := time.Now()
	var b strings.Builder
	s.cacheLock.RLock()
	var keys []string
	for k := range s.cache {
		keys = append(keys, k)
	}
	sort.Strings(keys)
	for _, k := range keys {
		f := s.cache[k]
		scan := "-" // how far back the search for the predecessor's log record has got (whole days)
		if !f.prevScanBeg.IsZero() {
			scan = fmt.Sprint(int(now.Sub(f.prevScanBeg).Hours() / 24))
		}
		fmt.Fprintf(&b, "C %s st%d h=%s prev=%s ren=%s logged=%s age=%s nf=%v w=%v nerr=%d scan=%s\n", f.name, f.state, f.hash, f.prev, f.renamed,
			bucket(now, f.logged), bucket(now, f.time), f.nextFinal, f.wait != nil, f.nErr, scan)
	}
	fmt.Fprintf(&b, "cacheTime=%s batches=%d pipe=%d\n", bucket(now, s.cacheTime), len(s.cacheTimes), s.nPipe)
	s.cacheLock.RUnlock()
	s.waitLock.RLock()
	keys = nil
	for k := range s.wait {
		keys = append(keys, k)
	}
	sort.Strings(keys)
	for _, k := range keys {
		var names []string
		for _, f := range s.wait[k] {
			// which object waits matters: only the one that is current in the cache is finalized
			// on release, and an armed retry timer brings an object back on its own
			n := f.name + ":" + f.hash
			if s.cache[f.path] != f {
				n += ":stale"
			}
			if f.wait != nil {
				n += ":timer"
			}
			names = append(names, n)
		}
		sort.Strings(names)
		fmt.Fprintf(&b, "W %s <- %v\n", strings.TrimPrefix(k, s.rootDir), names)
	}
	s.waitLock.RUnlock()
	s.pathLock.RLock()
	keys = nil
	for k := range s.pathLocks {
		keys = append(keys, strings.TrimPrefix(k, s.rootDir))
	}
	s.pathLock.RUnlock()
	sort.Strings(keys)
	fmt.Fprintf(&b, "L %v ready=%v\n", keys, s.Ready())
	return b.String()
}

// retryTimers counts held files with an armed 10 s retry timer.
func (w *rw) retryTimers() int {
	n := 0
	w.st.waitLock.RLock()
	for _, ff := range w.st.wait {
		for _, f := range ff {
			if f.wait != nil {
				n++
			}
		}
	}
	w.st.waitLock.RUnlock()
	return n
}

// bucket classifies an instant relative to now by the thresholds the stage uses.
func bucket(now, t time.Time) string {
	if t.IsZero() {
		return "zero"
	}
	d := now.Sub(t)
	switch {
	case d < 0:
		return "future"
	case d < time.Hour:
		return "<1h"
	case d < 24*time.Hour:
		return "<24h"
	case d < 30*24*time.Hour:
		return "<30d"
	}
	return ">=30d"
}

// tree renders the sandbox with age buckets for staged files.
func (w *rw) tree() string {
	now := time.Now()
	var b strings.Builder
	for _, e := range vh.List(w.root) {
		if e.Dir {
			fmt.Fprintf(&b, "%s/ %s\n", e.Path, bucket(now, time.Unix(0, e.MTime)))
			continue
		}
		age := ""
		if strings.HasPrefix(e.Path, "stage/") {
			age = bucket(now, time.Unix(0, e.MTime))
		}
		fmt.Fprintf(&b, "%s %d %s %s\n", e.Path, e.Size, e.MD5, age)
	}
	return b.String()
}

func (w *rw) staged(name, ext string) ([]byte, bool) {
	b, err := os.ReadFile(filepath.Join(w.stageDir, name+ext))
	return b, err == nil
}

func exists(p string) bool {
	_, err := os.Lstat(p)
	return err == nil
}
