//go:build verif

package stage

import (
	"fmt"
	"os"
	"path/filepath"
	"sort"
	"strings"
	"testing"
	"time"

	"github.com/arm-doe/sts"
	"github.com/arm-doe/sts/internal/verif/vh"
)

// C04: files of a group are delivered in order; none before its predecessor.

type c04Scenario struct {
	Name   string
	Files  []*sFile
	Prelog map[string]time.Duration // name -> age of a receive-log record written in an earlier run
	Lean   bool                     // reduced alphabet (every file delivered at most once, no corruption, no polls)
}

func one(key, name, prev, data string) *sFile {
	return &sFile{Key: key, Name: name, Prev: prev, Data: data, Cuts: []int64{0, int64(len(data))}}
}

// names: "a" is a prefix of "a.b" and a substring of "xa"
func c04Scenarios(thorough bool) []c04Scenario {
	sc := []c04Scenario{
		{Name: "chain", Files: []*sFile{one("f1", "a", "", "1111"), one("f2", "a.b", "a", "2222"), one("f3", "xa", "a.b", "3333")}},
		{Name: "forest", Files: []*sFile{one("f1", "a", "", "1111"), one("f2", "a.b", "a", "2222"), one("f3", "xa", "a", "3333")}},
		{Name: "self+tail", Files: []*sFile{one("f1", "a", "a", "1111"), one("f2", "a.b", "a", "2222")}},
		{Name: "2-cycle+tail", Files: []*sFile{one("f1", "a", "a.b", "1111"), one("f2", "a.b", "a", "2222"), one("f3", "xa", "a", "3333")}},
		{Name: "logged-1min", Files: []*sFile{one("f2", "a.b", "a", "2222"), one("f3", "xa", "a.b", "3333")}, Prelog: map[string]time.Duration{"a": time.Minute}},
		{Name: "logged-25h-substring", Files: []*sFile{one("f2", "a.b", "a", "2222")}, Prelog: map[string]time.Duration{"xa": time.Minute, "a.b.c": time.Minute, "a": 25 * time.Hour}},
		{Name: "logged-4d", Files: []*sFile{one("f2", "a.b", "a", "2222")}, Prelog: map[string]time.Duration{"a": 4 * 24 * time.Hour}},
		// two versions of a held file: version 1 arrives while its predecessor is unknown (retry timer
		// armed), the predecessor arrives and is held itself, version 2 replaces version 1
		{Name: "new-version-of-held-file", Lean: true, Files: []*sFile{one("f0", "xa", "", "0000"), one("f1", "a", "xa", "1111"), one("f2", "a.b", "a", "2222"), one("f2b", "a.b", "a", "3333")}},
		// the name of a held file was delivered before, three days ago (log record only); its successor
		// carries a modification time five days back, so that receiving it extends the cache beyond
		// that old record while the new version is still held
		{Name: "reused-name-held-while-cache-grows-back", Lean: true, Prelog: map[string]time.Duration{"a": 3 * 24 * time.Hour},
			Files: []*sFile{one("f0", "xa", "", "0000"), one("f1", "a", "xa", "1111"),
				{Key: "f2", Name: "a.b", Prev: "a", Data: "2222", Cuts: []int64{0, 4}, TimeOff: -5 * 24 * 3600}}},
		{Name: "only-superstrings-logged", Files: []*sFile{one("f2", "a.b", "a", "2222")}, Prelog: map[string]time.Duration{"xa": time.Minute, "a.b": 25 * time.Hour, "d/a": time.Minute}},
	}
	if thorough {
		sc = append(sc,
			c04Scenario{Name: "3-cycle", Files: []*sFile{one("f1", "a", "xa", "1111"), one("f2", "a.b", "a", "2222"), one("f3", "xa", "a.b", "3333")}},
			c04Scenario{Name: "logged-40d", Files: []*sFile{one("f2", "a.b", "a", "2222")}, Prelog: map[string]time.Duration{"a": 40 * 24 * time.Hour}},
			c04Scenario{Name: "chain4", Files: []*sFile{one("f1", "a", "", "1111"), one("f2", "a.b", "a", "2222"), one("f3", "xa", "a.b", "3333"), one("f4", "d/a", "xa", "4444")}},
		)
	}
	return sc
}

func c04Alphabet(files []*sFile, thorough, lean bool) func(hist []sAction) []sAction {
	return func(hist []sAction) []sAction {
		var out []sAction
		maxRecv := 2
		if lean {
			maxRecv = 1
		}
		for _, f := range files {
			if histCount(hist, "recv", f.Key, 0) < maxRecv {
				out = append(out, sAction{Op: "recv", F: f.Key, P: 0})
			}
		}
		if lean {
			for _, op := range []string{"adv10s", "adv30m", "clean", "restart"} {
				if histCount(hist, op, "", 0) < 1 {
					out = append(out, sAction{Op: op})
				}
			}
			return out
		}
		if histCount(hist, "recvbad", "", 0) < 1 {
			for _, f := range files {
				out = append(out, sAction{Op: "recvbad", F: f.Key, P: 0})
			}
		}
		if histCount(hist, "poll", "", 0) < 1 {
			for _, f := range files {
				out = append(out, sAction{Op: "poll", F: f.Key})
			}
		}
		for _, op := range []string{"adv10s", "adv30m", "clean", "restart"} {
			max := 1
			if op == "adv10s" && thorough {
				max = 2
			}
			if histCount(hist, op, "", 0) < max {
				out = append(out, sAction{Op: op})
			}
		}
		return out
	}
}

// onCycle: following announced predecessors from f through the scenario's files runs into a cycle
func c04ReachesCycle(files map[string]*sFile, byName map[string]*sFile, f *sFile) bool {
	seen := map[string]bool{}
	cur := f
	for cur != nil {
		if cur.Prev == "" || cur.Prev == cur.Name {
			return false
		}
		if seen[cur.Name] {
			return true
		}
		seen[cur.Name] = true
		cur = byName[cur.Prev]
	}
	return false
}

func c04Check(sc c04Scenario) func(s *sim, _ bool) vh.HistResult {
	return func(s *sim, _ bool) vh.HistResult {
		res := vh.HistResult{Enabled: true}
		byName := map[string]*sFile{}
		for _, k := range s.order {
			byName[s.files[k].Name] = s.files[k]
		}
		deliveredAt := map[string]int{} // name -> step of first arrival
		for i, st := range s.steps {
			for _, arr := range st.Arrived {
				name := arr[:strings.LastIndex(arr, " ")]
				if _, ok := deliveredAt[name]; !ok {
					deliveredAt[name] = i
				}
			}
		}
		logIdx := map[string]int{}
		last := s.steps[len(s.steps)-1]
		for j, r := range last.LogAfter {
			name := strings.Split(r, "|")[0]
			mine := false
			for _, k := range s.order {
				if f := s.files[k]; f.Name == name && strings.HasSuffix(r, "|"+f.hash()) {
					mine = true // some version of the name delivered in this run
				}
			}
			if !mine {
				continue // a record of an earlier run
			}
			if _, ok := logIdx[name]; !ok {
				logIdx[name] = j
			}
		}
		releasedByCleaner := func(step int) bool {
			switch s.steps[step].Act.Op {
			case "clean", "adv30m":
				return true
			}
			return false
		}
		for name, at := range deliveredAt {
			f := byName[name]
			if f == nil || f.Prev == "" || f.Prev == f.Name {
				continue
			}
			_, prelogged := sc.Prelog[f.Prev]
			if prelogged && byName[f.Prev] != nil && at > 0 {
				// the predecessor's name is used again in this run: the record of the earlier run
				// stands for it only as long as the new version is not in the receiver's hands
				if st := s.steps[at-1].States[f.Prev]; st == stateReceived || st == stateValidated || st == stateFailed {
					prelogged = false
				}
			}
			pAt, pDelivered := deliveredAt[f.Prev]
			orderOK := prelogged || (pDelivered && (pAt < at || (pAt == at && logIdx[f.Prev] < logIdx[name])))
			if orderOK {
				continue
			}
			if c04ReachesCycle(s.files, byName, f) && releasedByCleaner(at) {
				continue // order given up by the periodic cleaner because of a cycle
			}
			res.Viol = fmt.Sprintf("[%s] step %d %s: %q was delivered although its announced predecessor %q has not been delivered (delivered so far: %v; receive log: %v)\n%s",
				sc.Name, at, s.steps[at].Act, name, f.Prev, deliveredAt, last.LogAfter, s.trace())
			return res
		}
		// the receive log shows the same order
		for name := range logIdx {
			f := byName[name]
			if f == nil || f.Prev == "" || f.Prev == f.Name {
				continue
			}
			if _, prelogged := sc.Prelog[f.Prev]; prelogged {
				continue
			}
			pi, ok := logIdx[f.Prev]
			if ok && pi < logIdx[name] {
				continue
			}
			if c04ReachesCycle(s.files, byName, f) {
				continue
			}
			res.Viol = fmt.Sprintf("[%s] %q is logged as received before its predecessor %q: %v\n%s", sc.Name, name, f.Prev, last.LogAfter, s.trace())
			return res
		}
		// while held, the poll says waiting; once the predecessor is delivered and a retry period has
		// passed, the file is delivered
		held := 0
		for i, st := range s.steps {
			if st.Act.Op == "poll" {
				f := s.files[st.Act.F]
				if st.States[f.Name] == stateValidated && st.Status != sts.ConfirmWaiting {
					res.Viol = fmt.Sprintf("[%s] step %d: %q is validated and held, but the poll answers %d (not waiting)\n%s", sc.Name, i, f.Name, st.Status, s.trace())
					return res
				}
			}
		}
		for name, stt := range last.States {
			if stt != stateValidated {
				continue
			}
			held++
			f := byName[name]
			if last.Act.Op != "adv10s" && last.Act.Op != "adv30m" {
				continue
			}
			_, prelogged := sc.Prelog[f.Prev]
			if prelogged && byName[f.Prev] != nil {
				if st := last.States[f.Prev]; st == stateReceived || st == stateValidated || st == stateFailed {
					prelogged = false // the new version of the predecessor is in flight: waiting for it is right
				}
			}
			if last.Act.Op == "adv10s" && prelogged && sc.Prelog[f.Prev] > 24*time.Hour {
				continue // the log is searched one more day back per retry
			}
			pAt, pDelivered := deliveredAt[f.Prev]
			if prelogged || (pDelivered && pAt < len(s.steps)-1) {
				res.Viol = fmt.Sprintf("[%s] %q is still held after %s although its predecessor %q was delivered (step %d / earlier run)\n%s", sc.Name, name, last.Act.Op, f.Prev, pAt, s.trace())
				return res
			}
			if last.Act.Op == "adv30m" && c04ReachesCycle(s.files, byName, f) {
				// the cleaner ran (30 min): a file on or behind a cycle whose whole cycle is held must be free
				allHeld := true
				cur := f
				seen := map[string]bool{}
				for cur != nil && !seen[cur.Name] {
					seen[cur.Name] = true
					if last.States[cur.Name] != stateValidated {
						allHeld = false
					}
					cur = byName[cur.Prev]
				}
				if allHeld && cur != nil {
					res.Viol = fmt.Sprintf("[%s] %q is still held after the periodic cleaner ran although every file on its predecessor cycle is held (cyclic references block delivery)\n%s", sc.Name, name, s.trace())
					res.Class = "cycle-tail-not-released"
					return res
				}
			}
		}
		res.Outcome = fmt.Sprintf("%s delivered=%d held=%d", sc.Name, len(deliveredAt), held)
		res.Digest = s.digest()
		return res
	}
}

// prelog writes receive-log records of an earlier run.
func c04Prelog(w *rw, sc c04Scenario) {
	now := time.Now()
	var names []string
	for name := range sc.Prelog {
		names = append(names, name)
	}
	sort.Strings(names)
	for _, name := range names {
		age := sc.Prelog[name]
		t := now.Add(-age)
		p := filepath.Join(w.logDir, fmt.Sprintf("%04d%02d", t.Year(), t.Month()), fmt.Sprintf("%02d", t.Day()))
		_ = os.MkdirAll(filepath.Dir(p), 0755)
		f, err := os.OpenFile(p, os.O_APPEND|os.O_CREATE|os.O_WRONLY, 0644)
		if err != nil {
			panic(err)
		}
		fmt.Fprintf(f, "%s::%s:%d:%d:\n", name, vh.MD5([]byte("old "+name)), 4, t.Unix())
		f.Close()
	}
}

func TestC04(t *testing.T) {
	runC04(t, "C04", "stage predecessor histories (E-HIST)", func(string) bool { return true })
}

// TestC03Hold: the receiver half of C03 - a validated file held for its predecessor does not
// stay in staging once the predecessor is delivered (in this run or, according to the
// receive log, an earlier one, however long ago); same machinery and oracle as C04.
func TestC03Hold(t *testing.T) {
	runC04(t, "C03", "held files are released (E-HIST on the stage)", func(name string) bool {
		return strings.HasPrefix(name, "logged") || name == "chain" || name == "forest" || name == "new-version-of-held-file" || name == "reused-name-held-while-cache-grows-back"
	})
}

func runC04(t *testing.T, prop, partName string, use func(scenario string) bool) {
	stT = t
	depth := 6
	if vh.Thorough() {
		depth = 8
	}
	rep := vh.NewReport(prop, partName)
	defer rep.Write()
	var rc struct {
		Scenario string    `json:"scenario"`
		Hist     []sAction `json:"history"`
	}
	scs := c04Scenarios(true)
	if vh.ReplaySpec(&rc) {
		for _, sc := range scs {
			if sc.Name == rc.Scenario {
				r := c04Run(sc, rc.Hist)
				rep.Executions = 1
				if r.Viol != "" {
					rep.Violate(r.Class, r.Viol, rc)
				}
			}
		}
		return
	}
	n := 0
	for _, sc := range c04Scenarios(vh.Thorough()) {
		sc := sc
		if !use(sc.Name) {
			continue
		}
		n++
		h := &vh.Hist[sAction]{
			Rep:        rep,
			Alphabet:   c04Alphabet(sc.Files, vh.Thorough(), sc.Lean),
			Run:        func(hist []sAction) vh.HistResult { return c04Run(sc, hist) },
			MaxDepth:   depth,
			ShardDepth: 2,
			NonTrivial: simNonTrivial,
			Render: func(hist []sAction) interface{} {
				return map[string]interface{}{"scenario": sc.Name, "history": hist}
			},
		}
		h.Explore()
	}
	rep.Bound = fmt.Sprintf("all histories up to length %d, for each of %d predecessor structures (chain, forest, self reference + tail, 2-cycle + tail, predecessor known only from a log record 1 min / 25 h / 4 days old, log holding only super-strings of the predecessor's name, a second version of a held file whose predecessor is held too (reduced alphabet); thorough adds 3-cycle, 40-day-old record, chain of 4) over single-part files named a, a.b, xa (prefix / substring of one another): deliver a file (up to twice), deliver it corrupted, poll, clock +11 s / +31 min (periodic cleaner), CleanNow, orderly restart", depth, n)
}

func c04Run(sc c04Scenario, hist []sAction) vh.HistResult {
	return simRunInit(sc.Files, hist, func(s *sim) { c04Prelog(s.w, sc) }, c04Check(sc))
}
