//go:build verif

package stage

import (
	"encoding/json"
	"fmt"
	"os"
	"sort"
	"testing"
	"testing/synctest"
	"time"

	"github.com/arm-doe/sts"
	"github.com/arm-doe/sts/internal/verif/vh"
)

// C09: the receiver's record of partly received files is sound.

type c09Action struct {
	Op string `json:"op"` // recv | short | bad (first byte damaged in transit; the reader delivers all bytes)
	V  string `json:"v"`  // version A | B | C
	B  int64  `json:"b"`
	E  int64  `json:"e"`
}

var c09T0 = time.Date(1999, 12, 31, 0, 0, 0, 0, time.UTC)

func c09Versions() map[string]*version {
	return map[string]*version{
		"A": mkVersion("d/f", "", "ABCDEFGH", c09T0),
		"B": mkVersion("d/f", "", "abcdefgh", c09T0.Add(time.Second)),
		"C": mkVersion("d/f", "", "123456", c09T0.Add(2*time.Second)),
	}
}

type c09Model struct {
	cur   string     // version on record ("" = none)
	acked [][2]int64 // acknowledged intervals of cur, in order of acknowledgement
	// the acknowledged intervals that must still be on record (reset when a part of another
	// version was announced but failed: the old record may or may not have been discarded)
	retain [][2]int64
	done   bool // cur was completed (record may go away)
	// a part of another version of the same size failed after (possibly) writing bytes
	clobbered bool
	// img: the bytes most recently acknowledged as written at each offset of cur (differs from the
	// source where a part arrived damaged); written: offsets acknowledged at least once
	img     []byte
	written []bool
}

// holds: body carries, at [b,e), bytes that were received for version v there - the source
// bytes or, where a damaged part was acknowledged, the bytes of that part.
func (m *c09Model) holds(body []byte, v *version, cur bool, b, e int64) bool {
	if int64(len(body)) < e || int64(len(v.Data)) < e {
		return false
	}
	for i := b; i < e; i++ {
		if body[i] == v.Data[i] {
			continue
		}
		if cur && int64(len(m.img)) > i && m.written[i] && body[i] == m.img[i] {
			continue
		}
		return false
	}
	return true
}

func covers(ranges [][2]int64, b, e int64) bool {
	// union of ranges ⊇ [b,e) ?
	rs := append([][2]int64{}, ranges...)
	sort.Slice(rs, func(i, j int) bool { return rs[i][0] < rs[j][0] })
	pos := b
	for _, r := range rs {
		if r[0] > pos {
			break
		}
		if r[1] > pos {
			pos = r[1]
		}
		if pos >= e {
			return true
		}
	}
	return pos >= e
}

func c09Run(hist []c09Action) (res vh.HistResult) {
	synctest.Test(stT, func(t *testing.T) { res = c09RunIn(hist) })
	return
}

// c09Prev: the predecessor every version announces ("" = none). With a predecessor that never
// arrives a completed version is validated and then held in staging instead of being delivered.
var c09Prev = ""

var stT *testing.T

func c09RunIn(hist []c09Action) vh.HistResult {
	root := vh.NewSandbox()
	defer vh.RemoveSandbox(root)
	w := newRW(root)
	w.start()
	defer w.stop()
	vs := c09Versions()
	m := &c09Model{}
	res := vh.HistResult{Enabled: true}
	for i, a := range hist {
		v := vs[a.V]
		size := int64(len(v.Data))
		if a.E > size {
			res.Enabled = false
			return res
		}
		p := part(v, c09Prev, a.B, a.E)
		data := v.Data[a.B:a.E]
		if a.Op == "short" {
			data = data[:len(data)-1]
		}
		if a.Op == "bad" {
			data = append([]byte{}, data...)
			data[0] ^= 0x20
		}
		path := w.stageDir + "/d/f"
		prevState, prevHash := w.st.getFileState(path), w.st.getFileHash(path)
		err := w.receive(p, data)
		st, stHash := w.st.getFileState(path), w.st.getFileHash(path)
		// ---- what does the receiver claim now?
		js, serr := w.st.Scan("1")
		if serr != nil {
			res.Viol = "Scan failed: " + serr.Error()
			return res
		}
		var partials []*sts.Partial
		_ = json.Unmarshal(js, &partials)
		var listed *sts.Partial
		for _, pp := range partials {
			if pp.Name == "d/f" {
				listed = pp
			}
		}
		// ---- reference model: which parts of which version were acknowledged
		if err == nil {
			switch {
			case m.cur != a.V:
				// a different version replaces the record
				m.cur, m.acked, m.retain, m.done = a.V, nil, nil, false
				m.img, m.written = make([]byte, size), make([]bool, size)
			case m.done:
				// already complete: later parts start a new (redundant) transmission
				m.acked, m.retain = nil, nil
			}
			m.acked = append(m.acked, [2]int64{a.B, a.E})
			m.retain = append(m.retain, [2]int64{a.B, a.E})
			copy(m.img[a.B:a.E], data)
			for k := a.B; k < a.E; k++ {
				m.written[k] = true
			}
		} else if m.cur != a.V {
			// A part of a different version was announced but its reception failed. Whether the
			// old record survives is left open ("until ... a different version replaces it"):
			// no retention obligations until the next acknowledged part.
			if m.cur != "" {
				m.clobbered = true // Prepare may have re-created the staged file, or bytes were overwritten
			}
			m.retain = nil
		}
		completedNow := st != stateUnknown && m.cur != "" && stHash == vs[m.cur].Hash &&
			(prevState == stateUnknown || prevState == stateFailed || prevHash != stHash) && err == nil
		// the body a claim about version `hash` refers to: the complete one (.full / .wait) when the
		// stage knows that version as complete (and not failed), else the partial in progress
		bodyFor := func(hash string) []byte {
			if st != stateFailed && st != stateUnknown && stHash == hash {
				for _, ext := range []string{waitExt, fullExt} {
					if b, ok := w.staged("d/f", ext); ok {
						return b
					}
				}
			}
			for _, ext := range []string{partExt, fullExt, waitExt} {
				if b, ok := w.staged("d/f", ext); ok {
					return b
				}
			}
			return nil
		}
		if _, partLeft := w.staged("d/f", partExt); partLeft {
			completedNow = false // Prepare creates <name>.part, completion renames it
		}
		desc := func() string { return fmt.Sprintf("after step %d %v (err=%v)", i, a, err) }
		// 1. listed ranges hold exactly the source bytes of the listed version
		if listed != nil {
			var lv *version
			for _, xn := range []string{"A", "B", "C"} {
				if vs[xn].Hash == listed.Hash {
					lv = vs[xn]
				}
			}
			if lv == nil {
				res.Viol = desc() + ": partial listing names an unknown hash " + listed.Hash
				return res
			}
			body := bodyFor(listed.Hash)
			for _, r := range listed.Parts {
				if r.End > int64(len(body)) || r.Beg < 0 || r.End > int64(len(lv.Data)) || !m.holds(body, lv, m.cur != "" && lv == vs[m.cur], r.Beg, r.End) {
					res.Viol = fmt.Sprintf("%s: the partial listing claims range [%d,%d) of version %s, but the staged file holds %q there (source %q)", desc(), r.Beg, r.End, lv.Hash[:6], safeSlice(body, r.Beg, r.End), safeSlice(lv.Data, r.Beg, r.End))
					if m.clobbered {
						res.Class = "stale-record-after-failed-part"
					}
					return res
				}
			}
		}
		// 2. 'did you receive these parts' answers
		delivered := w.consumedAndFinal()
		for _, qn := range []string{"A", "B", "C"} {
			q := vs[qn]
			for b := int64(0); b < int64(len(q.Data)); b += c09Step {
				for e := b + c09Step; e <= int64(len(q.Data)); e += c09Step {
					n := w.st.Received([]sts.Binned{part(q, c09Prev, b, e)})
					if n != 1 {
						continue
					}
					body := bodyFor(q.Hash)
					held := m.holds(body, q, qn == m.cur, b, e)
					for _, c := range delivered {
						if c == "d/f "+q.Hash {
							held = true
						}
					}
					if !held {
						res.Viol = fmt.Sprintf("%s: Received() says part [%d,%d) of version %s is held, but neither the staged file (%q) nor a delivered file holds those bytes", desc(), b, e, q.Hash[:6], safeSlice(body, b, e))
						if m.clobbered {
							res.Class = "stale-record-after-failed-part"
						}
						return res
					}
				}
			}
		}
		// the version on record counts as complete while the stage knows it (not failed)
		m.done = m.cur != "" && st != stateUnknown && st != stateFailed && stHash == vs[m.cur].Hash
		// 3. completion only if acknowledged ranges cover the file
		if completedNow {
			cv := vs[m.cur]
			if !covers(m.acked, 0, int64(len(cv.Data))) {
				res.Viol = fmt.Sprintf("%s: file treated as complete (state %d) although the acknowledged ranges %v do not cover it", desc(), st, m.acked)
				return res
			}
		}
		// 4. acknowledged parts stay on record until completion / version change
		if !m.done && m.cur != "" {
			var lr [][2]int64
			if listed != nil && listed.Hash == vs[m.cur].Hash {
				for _, r := range listed.Parts {
					lr = append(lr, [2]int64{r.Beg, r.End})
				}
			}
			for _, ak := range m.retain {
				if !covers(lr, ak[0], ak[1]) {
					res.Viol = fmt.Sprintf("%s: part [%d,%d) was acknowledged but is no longer on record (listed %v, acknowledged so far %v)", desc(), ak[0], ak[1], lr, m.acked)
					if overlapping(m.retain) {
						res.Class = "companion-replace-overlap"
					}
					return res
				}
			}
		}
		if st == stateFailed && completedNow {
			// complete, but damaged: the sender will transmit the whole file again; nothing has to
			// stay on record
			m.acked, m.retain = nil, nil
		}
		w.consume()
		w.settle()
	}
	res.Outcome = fmt.Sprintf("cur=%s done=%v nacked=%d", m.cur, m.done, len(m.acked))
	res.Digest = vh.Digest(w.tree(), w.dump(), fmt.Sprint(m.cur, m.done, m.acked, m.retain, m.clobbered))
	if dbg := os.Getenv("VERIF_DEBUG_DIGEST"); dbg != "" {
		f, _ := os.OpenFile(dbg, os.O_APPEND|os.O_CREATE|os.O_WRONLY, 0644)
		fmt.Fprintf(f, "=== %v\n%s\n%s\n%v\n", hist, w.tree(), w.dump(), fmt.Sprint(m.cur, m.done, m.acked, m.retain, m.clobbered))
		f.Close()
	}
	return res
}

func (w *rw) consumedAndFinal() []string {
	out := append([]string{}, w.consumed...)
	for _, e := range vh.List(w.finalDir) {
		if !e.Dir {
			out = append(out, e.Path+" "+e.MD5)
		}
	}
	return out
}

func histHasShort(h []c09Action) bool {
	for _, a := range h {
		if a.Op == "short" {
			return true
		}
	}
	return false
}

func overlapping(rs [][2]int64) bool {
	for i := range rs {
		for j := i + 1; j < len(rs); j++ {
			if rs[i] != rs[j] && rs[i][0] < rs[j][1] && rs[j][0] < rs[i][1] {
				return true
			}
		}
	}
	return false
}

func safeSlice(b []byte, beg, end int64) string {
	if beg < 0 {
		beg = 0
	}
	if end > int64(len(b)) {
		end = int64(len(b))
	}
	if beg >= end {
		return ""
	}
	return string(b[beg:end])
}

func TestC09(t *testing.T) { runC09(t, "part sequences on one file (E-HIST)", "", 0) }

// TestC09Held: the same part sequences on a file whose versions announce a predecessor that
// never arrives: a completed version is validated and held (its body is <name>.wait) while the
// parts of other versions keep coming.
func TestC09Held(t *testing.T) {
	runC09(t, "part sequences on a file that is held for its predecessor once complete (E-HIST)", "q/never", -1)
}

// TestC09Fine: parts on the odd cut points {0,3,4,8} of the 8-byte file, so that the record can
// have a hole of exactly one byte ([3,4) missing between [0,3) and [4,8)) and ranges that touch or
// overlap in a single byte; after every step Received is asked for EVERY interval [b,e) of every
// version (byte granularity, 36 intervals per 8-byte version).
func TestC09Fine(t *testing.T) {
	c09Step = 1
	c09Alpha = nil
	for _, iv := range [][2]int64{{0, 3}, {3, 4}, {4, 8}, {0, 4}, {3, 8}, {0, 8}, {1, 2}} {
		c09Alpha = append(c09Alpha, c09Action{"recv", "A", iv[0], iv[1]})
	}
	c09Alpha = append(c09Alpha, c09Action{"recv", "B", 0, 3}, c09Action{"recv", "B", 4, 8}, c09Action{"short", "A", 3, 4})
	defer func() { c09Step, c09Alpha = 2, nil }()
	runC09(t, "parts with one-byte holes and one-byte overlaps, Received asked at byte granularity (E-HIST)", "", 0)
}

// c09Step is the granularity of the Received questions; c09Alpha, when set, replaces the alphabet.
var (
	c09Step  int64 = 2
	c09Alpha []c09Action
)

func runC09(t *testing.T, partName, prev string, depthAdj int) {
	stT = t
	c09Prev = prev
	defer func() { c09Prev = "" }()
	rep := vh.NewReport("C09", partName)
	defer rep.Write()
	var rc []c09Action
	if vh.ReplaySpec(&rc) {
		r := c09Run(rc)
		rep.Executions = 1
		if r.Viol != "" {
			rep.Violate(r.Class, r.Viol, rc)
		}
		return
	}
	depth := 4
	if vh.Thorough() {
		depth = 5
	}
	depth += depthAdj
	var alpha []c09Action
	for b := int64(0); b < 8; b += 2 {
		for e := b + 2; e <= 8; e += 2 {
			alpha = append(alpha, c09Action{"recv", "A", b, e})
		}
	}
	for _, iv := range [][2]int64{{0, 8}, {0, 4}, {4, 8}, {2, 6}} {
		alpha = append(alpha, c09Action{"recv", "B", iv[0], iv[1]})
	}
	for _, iv := range [][2]int64{{0, 6}, {0, 4}, {4, 6}} {
		alpha = append(alpha, c09Action{"recv", "C", iv[0], iv[1]})
	}
	for _, iv := range [][2]int64{{0, 4}, {4, 8}, {6, 8}} {
		alpha = append(alpha, c09Action{"short", "A", iv[0], iv[1]})
	}
	alpha = append(alpha, c09Action{"bad", "A", 0, 4}) // completes to a file that fails validation and is sent again
	fine := c09Alpha != nil
	if fine {
		alpha = c09Alpha
	}
	h := &vh.Hist[c09Action]{
		Rep:        rep,
		Alphabet:   func([]c09Action) []c09Action { return alpha },
		Run:        c09Run,
		MaxDepth:   depth,
		ShardDepth: 2,
		NonTrivial: func(hist []c09Action, r vh.HistResult) bool { return len(hist) >= 2 },
	}
	h.Explore()
	held := ""
	if prev != "" {
		held = " (every version announces a predecessor that never arrives)"
	}
	if fine {
		rep.Bound = fmt.Sprintf("all sequences of <=%d parts out of %d: 7 intervals of the 8-byte file on cut points {0,1,2,3,4,8} (one-byte part, one-byte hole, one-byte overlap), 2 parts of a same-size version with another hash, one short-reading reader; after every step: Scan, Received for every interval [b,e) at byte granularity of every version, completion and retention checks", depth, len(alpha))
		return
	}
	rep.Bound = held + fmt.Sprintf("all sequences of <=%d parts of one 8-byte file: the 10 intervals on cut points {0,2,4,6,8} (disjoint, adjacent, identical, nested, overlapping), 3 short-reading readers, one part damaged in transit (the file then fails validation and is transmitted again), 4 parts of a same-size version with another hash, 3 parts of a version with another size; after every step: Scan, Received for every interval of every version, completion and retention checks", depth)
}
