//go:build verif

package stage

import (
	"fmt"
	"strings"
	"testing"

	"github.com/arm-doe/sts"
	"github.com/arm-doe/sts/internal/verif/vh"
)

// C05: each validated file version is delivered exactly once.

func c05Files() []*sFile {
	return []*sFile{
		{Key: "a1", Name: "a", Data: "AAAABBBB", Cuts: []int64{0, 4, 8}},
		{Key: "b1", Name: "b", Prev: "a", Data: "CCCC", Cuts: []int64{0, 4}}, // held until a is delivered
		// two unrelated single-part files: delivered at different times they age out of the cache together
		{Key: "c1", Name: "c", Data: "cccc", Cuts: []int64{0, 4}},
		{Key: "d1", Name: "d", Data: "dddd", Cuts: []int64{0, 4}},
	}
}

func c05Alphabet(files []*sFile, thorough bool) func(hist []sAction) []sAction {
	maxRecv := 2
	if thorough {
		maxRecv = 3
	}
	return func(hist []sAction) []sAction {
		var out []sAction
		for _, f := range files {
			for p := 0; p < len(f.Cuts)-1; p++ {
				limit := maxRecv
				if f.Key == "c1" {
					limit = 1 // c only has to be delivered before d
				}
				if histCount(hist, "recv", f.Key, p) < limit {
					out = append(out, sAction{Op: "recv", F: f.Key, P: p})
				}
			}
		}
		if histCount(hist, "received", "", 0) < 1 {
			out = append(out, sAction{Op: "received", F: "a1", P: 0}, sAction{Op: "received", F: "a1", P: 1}, sAction{Op: "received", F: "b1", P: 0})
		}
		if histCount(hist, "poll", "", 0) < 1 {
			out = append(out, sAction{Op: "poll", F: "a1"}, sAction{Op: "poll", F: "b1"})
		}
		for _, op := range []string{"restart", "adv25h", "age", "clean", "adv10s"} {
			if histCount(hist, op, "", 0) < 1 {
				out = append(out, sAction{Op: op})
			}
		}
		return out
	}
}

// c05Check: arrivals and log records per (name, hash) at most one; a delivered version is
// answered "received"/"passed" ever after.
func c05Check(s *sim, _ bool) vh.HistResult {
	res := vh.HistResult{Enabled: true}
	arrivals := map[string]int{}
	lastOfName := map[string]string{} // target name -> "name hash" delivered last
	superseded := map[string]int{}    // "name hash" -> times it was delivered again after another version
	delivered := map[string]bool{}    // file key -> delivered in an earlier step
	agedOut := false               // the in-memory record may be gone (ageing / restart after >24 h)
	advanced := false
	// the clock period in which each version was delivered is part of the state: records
	// logged at different times age differently
	period := 0
	at := map[string]int{}
	byVersion := map[string]int{}
	lastOfSrc := map[string]string{}
	for i, st := range s.steps {
		switch st.Act.Op {
		case "adv10s":
			period++
		case "adv25h":
			period++
			advanced = true
		case "age", "restart":
			if advanced {
				agedOut = true
			}
		}
		f := s.files[st.Act.F]
		if f != nil && delivered[f.Key] {
			switch st.Act.Op {
			case "poll":
				if st.Status != sts.ConfirmPassed {
					res.Viol = fmt.Sprintf("step %d: %s was delivered earlier, yet the poll answers %d (not passed)\n%s", i, f.Name, st.Status, s.trace())
					return res
				}
			case "received":
				if st.NRecv != 1 {
					res.Viol = fmt.Sprintf("step %d: %s was delivered earlier, yet 'did you receive part %d' is answered no\n%s", i, f.Name, st.Act.P, s.trace())
					return res
				}
			}
		}
		for _, arr := range st.Arrived {
			// A version that arrives again after ANOTHER version of the same name was delivered is,
			// for the receiver, a new version (the file changed back): it cannot be told apart from
			// a late duplicate, and discarding it would leave the receiver with superseded content.
			name := arr[:strings.LastIndex(arr, " ")]
			if prev, ok := lastOfName[name]; ok && prev != arr && arrivals[arr] > 0 {
				arrivals[arr] = 0
				superseded[arr]++
			}
			lastOfName[name] = arr
			arrivals[arr]++
			if arrivals[arr] > 1 {
				res.Viol = fmt.Sprintf("step %d %s: %q arrived in the final directory a second time\n%s", i, st.Act, arr, s.trace())
				if agedOut {
					res.Class = "redelivery-after-cache-ageing"
				}
				return res
			}
			vid := ""
			for _, k := range s.order {
				ff := s.files[k]
				if arr == ff.target()+" "+ff.hash() {
					delivered[k] = true
					if _, ok := at[k]; !ok {
						at[k] = period
					}
					vid = ff.Name + " " + ff.hash()
				}
			}
			// one delivery per VERSION (source name + hash), under whatever target name a
			// retransmission announces (the sender works the target out anew for every transmission)
			if vid != "" {
				src := vid[:strings.LastIndex(vid, " ")]
				if prev, ok := lastOfSrc[src]; ok && prev != vid {
					byVersion[vid] = 0
				}
				lastOfSrc[src] = vid
				byVersion[vid]++
				if byVersion[vid] > 1 {
					res.Viol = fmt.Sprintf("step %d %s: version %q was delivered a second time (this time as %q)\n%s", i, st.Act, vid, arr, s.trace())
					if agedOut {
						res.Class = "redelivery-after-cache-ageing"
					}
					return res
				}
			}
		}
	}
	last := s.steps[len(s.steps)-1]
	recs := map[string]int{}
	for _, r := range last.LogAfter {
		recs[r]++
		rp := strings.Split(r, "|")
		rt := rp[0]
		if rp[1] != "" {
			rt = rp[1]
		}
		if recs[r] > 1+superseded[rt+" "+rp[2]] {
			res.Viol = fmt.Sprintf("after %s: receive-log record %q written %d times (no crash in this history)\n%s", last.Act, r, recs[r], s.trace())
			if agedOut {
				res.Class = "redelivery-after-cache-ageing"
			}
			return res
		}
	}
	// a log record and a delivery go together (at quiescence)
	for r := range recs {
		parts := strings.Split(r, "|")
		tgt := parts[0]
		if parts[1] != "" {
			tgt = parts[1]
		}
		if arrivals[tgt+" "+parts[2]] == 0 {
			res.Viol = fmt.Sprintf("after %s: receive-log record %q without a delivery\n%s", last.Act, r, s.trace())
			return res
		}
	}
	res.Outcome = fmt.Sprintf("delivered=%d", len(delivered))
	when := ""
	for _, k := range s.order {
		if p, ok := at[k]; ok {
			when += fmt.Sprintf("%s:%d ", k, period-p) // clock periods since the delivery
		}
	}
	res.Digest = s.digest(fmt.Sprint(advanced, agedOut, when))
	return res
}

func TestC05(t *testing.T) {
	depth := 6
	if vh.Thorough() {
		depth = 8
	}
	files := c05Files()
	runSimCheck(t, "C05", "stage retransmission histories (E-HIST)", files, c05Alphabet(files, vh.Thorough()), c05Check, depth,
		fmt.Sprintf("all histories up to length %d over: file a in 2 parts, file b (1 part) announcing a as predecessor, two unrelated single-part files c and d; every part received up to 2 (thorough: 3) times at any point (before completion, while held, after delivery, after the in-memory record aged out), one 'did you receive' query, one poll, orderly restart, clock +10 s / +25 h, cache ageing (cleanCache called directly), CleanNow; the harness consumes the final directory after every step", depth))
}

// TestC05Held: exactly-once delivery around a held file that is superseded by a new version.
func TestC05Held(t *testing.T) {
	files := []*sFile{
		{Key: "p1", Name: "p", Data: "PPPP", Cuts: []int64{0, 4}},
		{Key: "b1", Name: "b", Prev: "p", Data: "CCCCDD", Cuts: []int64{0, 6}},
		{Key: "b2", Name: "b", Prev: "p", Data: "ccccdd", Cuts: []int64{0, 4, 6}, TimeOff: 60},
	}
	alphabet := func(hist []sAction) []sAction {
		var out []sAction
		b1done := histCount(hist, "recv", "b1", 0) > 0
		for _, f := range files {
			if f.Key == "b2" && !b1done {
				continue
			}
			for p := 0; p < len(f.Cuts)-1; p++ {
				if histCount(hist, "recv", f.Key, p) < 2 {
					out = append(out, sAction{Op: "recv", F: f.Key, P: p})
				}
			}
		}
		if histCount(hist, "poll", "", 0) < 1 {
			out = append(out, sAction{Op: "poll", F: "b2"}, sAction{Op: "poll", F: "p1"})
		}
		for _, op := range []string{"restart", "adv25h", "age", "adv10s"} {
			if histCount(hist, op, "", 0) < 1 {
				out = append(out, sAction{Op: op})
			}
		}
		return out
	}
	depth := 6
	if vh.Thorough() {
		depth = 8
	}
	runSimCheck(t, "C05", "retransmissions around a held file that is superseded by a new version (E-HIST)", files, alphabet, c05Check, depth,
		fmt.Sprintf("all histories up to length %d over: file p (1 part), file b version 1 (1 part, predecessor p) and, after it, version 2 (2 parts); every part up to twice, one poll, orderly restart, clock +10 s / +25 h, cache ageing", depth))
}

// TestC05Versions: two versions of one name (no predecessor) delivered one after the other, then
// retransmissions of the latest one around a restart / cache ageing.
func TestC05Versions(t *testing.T) {
	files := []*sFile{
		{Key: "v1", Name: "b", Data: "CCCCDD", Cuts: []int64{0, 6}},
		{Key: "v2", Name: "b", Data: "ccccdd", Cuts: []int64{0, 4, 6}, TimeOff: 60},
	}
	alphabet := func(hist []sAction) []sAction {
		var out []sAction
		v1done := histCount(hist, "recv", "v1", 0) > 0
		for _, f := range files {
			if f.Key == "v2" && !v1done {
				continue
			}
			for p := 0; p < len(f.Cuts)-1; p++ {
				if histCount(hist, "recv", f.Key, p) < 2 {
					out = append(out, sAction{Op: "recv", F: f.Key, P: p})
				}
			}
		}
		for _, op := range []string{"restart", "adv25h", "age"} {
			max := 1
			if op == "adv25h" {
				max = 2 // two days on, a delivery's log record is outside the day files "the last 24 h" touch
			}
			if histCount(hist, op, "", 0) < max {
				out = append(out, sAction{Op: op})
			}
		}
		return out
	}
	depth := 7
	if vh.Thorough() {
		depth = 9
	}
	runSimCheck(t, "C05", "retransmissions of the latest of two versions of a name (E-HIST)", files, alphabet, c05Check, depth,
		fmt.Sprintf("all histories up to length %d over two versions of one name (1 and 2 parts, the second after the first): every part up to twice, orderly restart, clock +25 h (x2), cache ageing", depth))
}

// TestC05Renamed: a retransmission of a delivered version that announces another target name
// (the rename rule was edited between two runs of the sender) is still the same version.
func TestC05Renamed(t *testing.T) {
	files := []*sFile{
		{Key: "v", Name: "b", Data: "CCCCDD", Cuts: []int64{0, 4, 6}},
		{Key: "vr", Name: "b", Renamed: "x/b", Data: "CCCCDD", Cuts: []int64{0, 4, 6}},
	}
	alphabet := func(hist []sAction) []sAction {
		var out []sAction
		for _, f := range files {
			for p := 0; p < len(f.Cuts)-1; p++ {
				if histCount(hist, "recv", f.Key, p) < 2 {
					out = append(out, sAction{Op: "recv", F: f.Key, P: p})
				}
			}
		}
		for _, op := range []string{"restart", "adv25h", "age", "adv10s"} {
			if histCount(hist, op, "", 0) < 1 {
				out = append(out, sAction{Op: op})
			}
		}
		return out
	}
	depth := 6
	if vh.Thorough() {
		depth = 8
	}
	runSimCheck(t, "C05", "retransmission of a version under another target name (E-HIST)", files, alphabet, c05Check, depth,
		fmt.Sprintf("all histories up to length %d over one 2-part file announced without and with a rename target: every part of either announcement up to twice in any order, orderly restart, clock +10 s / +25 h, cache ageing", depth))
}
