//go:build verif

package stage

import (
	"os"
	"sync"

	"github.com/arm-doe/sts/log"
)

var (
	tornMu sync.Mutex
	torn   = map[*Stage]bool{}
)

// VerifTeardown ends the stage's goroutines and timers so that a synctest bubble can
// end (harness only): timers stopped, channels closed, pipe counter cleared (so that
// Stop(false) returns), the receive logger's writer closed.
func (s *Stage) VerifTeardown() {
	tornMu.Lock()
	again := torn[s]
	torn[s] = true
	if len(torn) > 64 {
		for k := range torn {
			if k != s {
				delete(torn, k)
			}
		}
	}
	tornMu.Unlock()
	if again {
		return
	}
	s.cleanLock.Lock()
	if s.cleanTimeout != nil {
		s.cleanTimeout.Stop()
	}
	s.cleanLock.Unlock()
	s.cacheLock.Lock()
	for _, f := range s.cache {
		if f.wait != nil {
			f.wait.Stop()
		}
	}
	s.nPipe = 0
	s.cacheLock.Unlock()
	s.waitLock.RLock()
	for _, ff := range s.wait {
		for _, f := range ff {
			if f.wait != nil {
				f.wait.Stop()
			}
		}
	}
	s.waitLock.RUnlock()
	safe := func(f func()) {
		defer func() { _ = recover() }() // may be closed already
		f()
	}
	// The handler goroutines end when the channels they range over are closed. A retry timer
	// the teardown cannot reach (an object that is neither in the cache nor on the wait list
	// any more) may still fire afterwards and send: it gets fresh buffered channels nobody
	// reads instead of a closed one.
	oldV, oldF := s.validateCh, s.finalizeCh
	if os.Getenv("VERIF_RACE") == "" {
		// (not in the free-running -race pass: the handlers read these fields once, when they
		// start, and nothing orders that read before a write made here)
		s.validateCh = make(chan *finalFile, 4096)
		s.finalizeCh = make(chan *finalFile, 4096)
	}
	safe(func() { close(oldV) })
	safe(func() { close(oldF) })
	if l, ok := s.logger.(*log.FileIO); ok {
		safe(l.VerifClose)
	}
}

// VerifState exposes the in-memory verdict for a relative path (oracles).
func (s *Stage) VerifState(relPath string) (state int, hash string, waiting bool) {
	p := s.rootDir + "/" + relPath
	return s.getFileState(p), s.getFileHash(p), s.isWaiting(p)
}

// VerifDirs returns the stage and target directories.
func (s *Stage) VerifDirs() (stageDir, targetDir string) { return s.rootDir, s.targetDir }
