//go:build verif

package stage

import (
	"bytes"
	"encoding/json"
	"fmt"
	"os"
	"path/filepath"
	"sort"
	"strings"
	"sync"
	"sync/atomic"
	"testing"
	"testing/synctest"
	"time"

	"github.com/arm-doe/sts"
	"github.com/arm-doe/sts/internal/verif/vh"
	"github.com/arm-doe/sts/internal/verif/vos"
)

// A general simulator of the receiving side used by C01, C04, C05, C06 and C20:
// a scenario names file versions and how they are cut into parts, a history is a
// list of actions on the real Stage; the simulator records a trace that the
// property oracles examine.

type sFile struct {
	Key     string  `json:"key"`     // identifies the version in actions, e.g. "a1"
	Name    string  `json:"name"`    // relative path at the source
	Renamed string  `json:"renamed"` // target name ("" = same)
	Prev    string  `json:"prev"`    // announced predecessor
	Data    string  `json:"data"`
	Cuts    []int64 `json:"cuts"`                 // part boundaries, e.g. [0,4,8]
	TimeOff int64   `json:"time_off_s,omitempty"` // file time relative to the scenario's default (seconds)
}

func (f *sFile) target() string {
	if f.Renamed != "" {
		return f.Renamed
	}
	return f.Name
}

func (f *sFile) hash() string { return vh.MD5([]byte(f.Data)) }

type sAction struct {
	Op string `json:"op"`
	F  string `json:"f,omitempty"`  // file key
	P  int    `json:"p,omitempty"`  // part index
	K  int    `json:"k,omitempty"`  // crash point (C06): the receiver dies before the K-th file-system mutation of this step
	K2 int    `json:"k2,omitempty"` // second crash: before the K2-th mutation of the recovery that follows
}

func (a sAction) String() string {
	s := a.Op
	if a.F != "" {
		s += fmt.Sprintf(":%s.%d", a.F, a.P)
	}
	if a.K != 0 {
		s += fmt.Sprintf("@%d", a.K)
	}
	if a.K2 != 0 {
		s += fmt.Sprintf("@@%d", a.K2)
	}
	return s
}

// sStep is what happened in one step.
type sStep struct {
	Act       sAction
	Err       string
	Arrived   []string          // "target md5" taken from the final directory after the step
	Status    int               // poll answer (op poll)
	NRecv     int               // Received() answer
	Removed   []string          // staging entries that disappeared during the step: "relpath size md5"
	Changed   []string          // staging files whose content changed during the step
	RmDirs    []string          // directories removed during the step "relpath agebucket empty?"
	Ops       int               // vos mutations during the step (crash points available)
	Ops2      int               // vos mutations during the recovery after the crash
	Crashed   bool              // a crash image was taken in this step and the world restarted from it
	Acked     bool              // (crashed steps) the reception had returned - the sender has its answer - before the crash
	LogAfter  []string          // receive-log records after the step
	States    map[string]int    // cache state per file name after the step
	Hashes    map[string]string // cache hash per file name after the step
	Waiting   map[string]bool   // name -> parked in wait map
	Stage     []vh.Entry        // staging tree after the step
	CmpBefore map[string]string // staged name -> hash recorded in its companion before the step
	Before    []vh.Entry        // staging tree before the step
	Now       time.Time
}

type sim struct {
	files   map[string]*sFile
	order   []string
	w       *rw
	steps   []sStep
	t0      time.Time
	ftime   time.Time
	opCount int64
	acked   int32 // the reception of the current step has returned without error
	ackedAt int32 // value of acked when the crash image was taken
	crashAt int64
	image   string
	roots   []string
	init    func(s *sim)
	keep    bool // delivered files stay in the final directory
}

// simKeep: simulations of the running test leave delivered files in the final directory.
var simKeep bool

func newSim(files []*sFile) *sim {
	s := &sim{files: map[string]*sFile{}, keep: simKeep}
	for _, f := range files {
		s.files[f.Key] = f
		s.order = append(s.order, f.Key)
	}
	return s
}

func (s *sim) begin() {
	vh.Epoch2011()
	root := vh.NewSandbox()
	s.roots = append(s.roots, root)
	s.w = newRW(root)
	s.w.keep = s.keep
	s.t0 = time.Now()
	s.ftime = s.t0.Add(-time.Hour)
	if s.init != nil {
		s.init(s)
		vos.FixTree(root)
	}
	s.w.start()
}

func (s *sim) end() {
	s.w.stop()
	vos.Hook = nil
	for _, r := range s.roots {
		vh.RemoveSandbox(r)
	}
}

func (s *sim) vpart(f *sFile, idx int) *vPart {
	v := &version{Name: f.Name, Renamed: f.Renamed, Data: []byte(f.Data), Hash: f.hash(), Time: s.ftime.Add(time.Duration(f.TimeOff) * time.Second)}
	return part(v, f.Prev, f.Cuts[idx], f.Cuts[idx+1])
}

// names lists the distinct source names of the scenario.
func (s *sim) names() []string {
	seen := map[string]bool{}
	var out []string
	for _, k := range s.order {
		n := s.files[k].Name
		if !seen[n] {
			seen[n] = true
			out = append(out, n)
		}
	}
	sort.Strings(out)
	return out
}

// runAsync runs fn in its own goroutine and waits for quiescence.
func runAsync(fn func()) {
	done := make(chan struct{})
	go func() {
		defer close(done)
		fn()
	}()
	synctest.Wait()
	select {
	case <-done:
	default:
		// still blocked (e.g. waiting for a timer): let virtual time pass
		<-done
	}
}

// apply executes one action and records the step. It returns false if the action
// is not applicable in the current state (no transition).
func (s *sim) apply(a sAction, last bool) bool {
	w := s.w
	st := sStep{Act: a}
	var before []vh.Entry
	if last {
		before = vh.List(w.stageDir)
		st.Before = before
		st.CmpBefore = map[string]string{}
		for _, e := range before {
			if !e.Dir && strings.HasSuffix(e.Path, compExt) {
				if cmp, err := readLocalCompanion(filepath.Join(w.stageDir, e.Path), ""); err == nil && cmp != nil {
					st.CmpBefore[strings.TrimSuffix(e.Path, compExt)] = cmp.Hash
				}
			}
		}
	}
	beforeNow := time.Now()
	atomic.StoreInt64(&s.opCount, 0)
	atomic.StoreInt32(&s.acked, 0)
	atomic.StoreInt32(&s.ackedAt, 0)
	s.image = ""
	root := w.root
	if a.K > 0 {
		s.crashAt = int64(a.K)
	} else {
		s.crashAt = 0
	}
	vos.Hook = func(op, p1, p2 string) error {
		if !strings.HasPrefix(p1, root+"/") {
			return nil
		}
		// one mutation at a time, so that the crash image is a point-in-time copy
		hookMu.Lock()
		defer hookMu.Unlock()
		n := atomic.AddInt64(&s.opCount, 1)
		if s.crashAt > 0 && n == s.crashAt {
			s.crashAt = 0
			s.takeImage()
		}
		return nil
	}
	ok := true
	switch a.Op {
	case "recv", "recvbad", "recvwrong", "short":
		f := s.files[a.F]
		if a.P >= len(f.Cuts)-1 {
			return false
		}
		p := s.vpart(f, a.P)
		data := []byte(f.Data)[p.beg:p.end]
		if a.Op == "recvbad" { // one byte flipped in transit
			data = append([]byte{}, data...)
			data[0] ^= 0x20
		}
		if a.Op == "short" { // the connection ends one byte before the part does
			data = data[:len(data)-1]
		}
		if a.Op == "recvwrong" { // the announced hash is not the file's
			p.hash = vh.MD5([]byte("wrong" + f.Data))
		}
		runAsync(func() {
			w.st.Prepare([]sts.Binned{p})
			file := &sts.Partial{Name: p.GetName(), Renamed: p.GetRenamed(), Prev: p.GetPrev(), Size: p.GetFileSize(),
				Hash: p.GetFileHash(), Source: "src", Parts: []*sts.ByteRange{{Beg: p.beg, End: p.end}}}
			file.Time.Time = p.GetFileTime()
			if err := w.st.Receive(file, bytes.NewReader(data)); err != nil {
				st.Err = err.Error()
			} else {
				atomic.StoreInt32(&s.acked, 1)
			}
		})
	case "flip": // overwrite one byte of the staged body of file F
		f := s.files[a.F]
		done := false
		for _, ext := range []string{partExt, fullExt, waitExt} {
			p := filepath.Join(w.stageDir, f.Name+ext)
			if b, err := os.ReadFile(p); err == nil && len(b) > 0 {
				fi, _ := os.Lstat(p)
				b[len(b)-1] ^= 0x01
				_ = os.WriteFile(p, b, 0644)
				vos.Stamp(p, fi.ModTime())
				done = true
				break
			}
		}
		if !done {
			return false
		}
	case "poll":
		f := s.files[a.F]
		runAsync(func() { st.Status = w.st.GetFileStatus(f.Name, s.ftime) })
	case "pollold": // the poll carries an older time (e.g. the start-up recovery poll uses file times and covers older files)
		f := s.files[a.F]
		runAsync(func() { st.Status = w.st.GetFileStatus(f.Name, s.ftime.Add(-48*time.Hour)) })
	case "received":
		f := s.files[a.F]
		if a.P >= len(f.Cuts)-1 {
			return false
		}
		runAsync(func() { st.NRecv = w.st.Received([]sts.Binned{s.vpart(f, a.P)}) })
	case "clean":
		runAsync(func() { w.st.CleanNow() })
	case "prune0":
		runAsync(func() { w.st.Prune(0) })
	case "prune1h":
		runAsync(func() { w.st.Prune(time.Hour) })
	case "age": // the in-memory cache ages (production: every 1000 files)
		runAsync(func() { w.st.cleanCache() })
	case "adv10s":
		time.Sleep(11 * time.Second)
	case "adv30m":
		time.Sleep(31 * time.Minute)
	case "adv12h", "adv25h", "adv40d":
		// A file held for a predecessor the stage knows nothing about re-scans the receive log
		// every 10 s, each time farther back (real behaviour, ~10^7 file opens per simulated
		// day): long clock jumps are only taken while no such retry timer is armed. (Files
		// held for a predecessor that is in progress or failed carry no timer.)
		if w.retryTimers() > 0 {
			return false
		}
		time.Sleep(map[string]time.Duration{"adv12h": 12 * time.Hour, "adv25h": 25 * time.Hour, "adv40d": 40 * 24 * time.Hour}[a.Op])
	case "restart":
		runAsync(func() {})
		w.settle()
		if a.K == 0 {
			w.stop()
			w.start()
			runAsync(func() { w.st.Recover() })
		}
	default:
		panic("unknown op " + a.Op)
	}
	w.settle()
	st.Ops = int(atomic.LoadInt64(&s.opCount))
	if a.K > 0 {
		if a.K > st.Ops+1 {
			ok = false // no such crash point in this step
		} else {
			if s.image == "" { // K == Ops+1: the process dies at rest after the step
				s.takeImage()
			}
			// the old incarnation ran to quiescence on its own directory; discard it
			w.stop()
			nw := newRW(s.image)
			nw.consumed = w.consumed
			nw.keep, nw.seen = w.keep, w.seen
			s.roots = append(s.roots, s.image)
			s.w = nw
			w = nw
			root = nw.root
			nw.start()
			atomic.StoreInt64(&s.opCount, 0)
			s.image = ""
			s.crashAt = int64(a.K2)
			runAsync(func() { nw.st.Recover() })
			nw.settle()
			st.Ops2 = int(atomic.LoadInt64(&s.opCount))
			st.Crashed = true
			st.Acked = atomic.LoadInt32(&s.ackedAt) == 1
			if a.K2 > 0 {
				if a.K2 > st.Ops2 {
					ok = false // no such crash point inside the recovery (dying at rest after it is K of the next step)
				} else {
					nw.stop()
					nw2 := newRW(s.image)
					nw2.consumed = nw.consumed
					nw2.keep, nw2.seen = nw.keep, nw.seen
					s.roots = append(s.roots, s.image)
					s.w = nw2
					w = nw2
					root = nw2.root
					s.crashAt = 0
					nw2.start()
					runAsync(func() { nw2.st.Recover() })
					nw2.settle()
				}
			}
		}
	}
	vos.Hook = nil
	if !ok {
		return false
	}
	// ---- observations
	st.Now = time.Now()
	st.Arrived = w.consume()
	if len(st.Arrived) > 0 {
		w.settle()
	}
	if last {
		after := vh.List(w.stageDir)
		if !st.Crashed {
			st.Removed, st.Changed, st.RmDirs = diffTrees(before, after, beforeNow)
		}
		st.Stage = after
		st.LogAfter = w.logRecords()
	}
	st.States, st.Hashes, st.Waiting = map[string]int{}, map[string]string{}, map[string]bool{}
	for _, n := range s.names() {
		p := filepath.Join(w.stageDir, n)
		st.States[n] = w.st.getFileState(p)
		st.Hashes[n] = w.st.getFileHash(p)
		st.Waiting[n] = w.st.isWaiting(p)
	}
	s.steps = append(s.steps, st)
	return true
}

var hookMu sync.Mutex

func (s *sim) takeImage() {
	atomic.StoreInt32(&s.ackedAt, atomic.LoadInt32(&s.acked))
	img := vh.NewSandbox()
	if err := vh.CopyTreeStamped(s.w.root, img); err != nil {
		panic(err)
	}
	s.image = img
}

func diffTrees(before, after []vh.Entry, then time.Time) (removed, changed, rmdirs []string) {
	am := map[string]vh.Entry{}
	for _, e := range after {
		am[e.Path] = e
	}
	children := map[string]int{}
	for _, e := range before {
		children[filepath.Dir(e.Path)]++
	}
	for _, e := range before {
		a, ok := am[e.Path]
		switch {
		case !ok && e.Dir:
			rmdirs = append(rmdirs, fmt.Sprintf("%s %s children=%d", e.Path, bucket(then, time.Unix(0, e.MTime)), children[e.Path]))
		case !ok:
			removed = append(removed, fmt.Sprintf("%s %d %s %s", e.Path, e.Size, e.MD5, bucket(then, time.Unix(0, e.MTime))))
		case !e.Dir && (a.MD5 != e.MD5 || a.Size != e.Size):
			changed = append(changed, e.Path)
		}
	}
	return
}

// digest of the simulator's current state (stage private state, sandbox, bookkeeping).
func (s *sim) digest(extra ...string) string {
	parts := []string{s.w.tree(), s.w.dump(), strings.Join(s.w.consumed, ",")}
	parts = append(parts, extra...)
	return vh.Digest(parts...)
}

// simRun replays a history in a fresh bubble and hands the simulator to check.
func simRun(files []*sFile, hist []sAction, check func(s *sim, enabled bool) vh.HistResult) (res vh.HistResult) {
	return simRunInit(files, hist, nil, check)
}

// simRunInit: init prepares the sandbox (e.g. an old receive log) before the stage starts.
func simRunInit(files []*sFile, hist []sAction, init func(s *sim), check func(s *sim, enabled bool) vh.HistResult) (res vh.HistResult) {
	synctest.Test(stT, func(t *testing.T) {
		s := newSim(files)
		s.init = init
		s.begin()
		defer s.end()
		for i, a := range hist {
			if !s.apply(a, i == len(hist)-1) {
				res = vh.HistResult{Enabled: false}
				return
			}
		}
		res = check(s, true)
	})
	return
}

type simReplay struct {
	Files []*sFile  `json:"files"`
	Hist  []sAction `json:"history"`
}

func (s *sim) trace() string {
	var b strings.Builder
	for i, st := range s.steps {
		js, _ := json.Marshal(st.States)
		fmt.Fprintf(&b, "%d %s err=%q arrived=%v status=%d nrecv=%d removed=%v states=%s log=%v\n", i, st.Act, st.Err, st.Arrived, st.Status, st.NRecv, st.Removed, js, st.LogAfter)
	}
	return b.String()
}
