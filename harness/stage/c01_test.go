//go:build verif

package stage

import (
	"fmt"
	"path/filepath"
	"strings"
	"testing"

	"github.com/arm-doe/sts"
	"github.com/arm-doe/sts/internal/verif/vh"
)

// C01: only hash-validated, byte-identical files reach the final directory.

func c01Files() []*sFile {
	return []*sFile{
		{Key: "a1", Name: "a", Renamed: "x/a", Data: "AAAABBBB", Cuts: []int64{0, 4, 8}},
		{Key: "a2", Name: "a", Renamed: "x/a", Data: "aaaabbbb", Cuts: []int64{0, 4, 8}}, // later version, same size
		{Key: "b1", Name: "s/a", Data: "CCCC", Cuts: []int64{0, 4}},                      // same leaf name in a sub-directory
	}
}

// count of an op (optionally for a file key / part) in a history
func histCount(hist []sAction, op, f string, p int) int {
	n := 0
	for _, a := range hist {
		if a.Op == op && (f == "" || (a.F == f && a.P == p)) {
			n++
		}
	}
	return n
}

func c01Alphabet(files []*sFile, thorough bool) func(hist []sAction) []sAction {
	return func(hist []sAction) []sAction {
		var out []sAction
		bad := histCount(hist, "recvbad", "", 0) + histCount(hist, "recvwrong", "", 0) + histCount(hist, "flip", "", 0)
		for _, f := range files {
			for p := 0; p < len(f.Cuts)-1; p++ {
				if histCount(hist, "recv", f.Key, p) < 2 {
					out = append(out, sAction{Op: "recv", F: f.Key, P: p})
				}
			}
		}
		if bad < 1 || (thorough && bad < 2) {
			for _, f := range files {
				for p := 0; p < len(f.Cuts)-1; p++ {
					out = append(out, sAction{Op: "recvbad", F: f.Key, P: p})
				}
			}
			out = append(out, sAction{Op: "recvwrong", F: "a1", P: 1}, sAction{Op: "recvwrong", F: "b1", P: 0})
			out = append(out, sAction{Op: "flip", F: "a1"})
		}
		if histCount(hist, "poll", "", 0)+histCount(hist, "pollold", "", 0) < 2 {
			out = append(out, sAction{Op: "poll", F: "a1"}, sAction{Op: "poll", F: "b1"}, sAction{Op: "pollold", F: "a1"})
		}
		if histCount(hist, "restart", "", 0) < 1 {
			out = append(out, sAction{Op: "restart"})
		}
		for _, adv := range []string{"adv10s", "adv30m", "adv25h"} {
			if histCount(hist, adv, "", 0) < 1 {
				out = append(out, sAction{Op: adv})
			}
		}
		return out
	}
}

// c01Check evaluates the C01 oracle on the whole trace (the last step is new).
func c01Check(s *sim, _ bool) vh.HistResult {
	res := vh.HistResult{Enabled: true}
	announced := map[string]bool{} // "name hash"
	for i, st := range s.steps {
		if f := s.files[st.Act.F]; f != nil && (st.Act.Op == "recv" || st.Act.Op == "recvbad") {
			announced[f.Name+" "+f.hash()] = true
		}
		last := i == len(s.steps)-1
		if !last {
			continue
		}
		for _, arr := range st.Arrived {
			sp := strings.LastIndex(arr, " ")
			target, md5 := arr[:sp], arr[sp+1:]
			if strings.HasSuffix(target, ".lck") {
				continue
			}
			var match *sFile
			named := false
			for _, k := range s.order {
				f := s.files[k]
				if f.target() == target {
					named = true
					if f.hash() == md5 && announced[f.Name+" "+md5] {
						match = f
					}
				}
			}
			if !named {
				res.Viol = fmt.Sprintf("step %d %s: a file appeared in the final directory under %q, which no announced file maps to\n%s", i, st.Act, target, s.trace())
				return res
			}
			if match == nil {
				res.Viol = fmt.Sprintf("step %d %s: %q was delivered with content md5 %s, which is no announced version of its source file\n%s", i, st.Act, target, md5, s.trace())
				return res
			}
			// the most recent log record for the name carries this hash
			lastHash := ""
			for _, rec := range st.LogAfter {
				parts := strings.Split(rec, "|")
				if parts[0] == match.Name {
					lastHash = parts[2]
				}
			}
			if lastHash != md5 {
				res.Viol = fmt.Sprintf("step %d %s: %q delivered with md5 %s but the latest receive-log record for %q carries %q\n%s", i, st.Act, target, md5, match.Name, lastHash, s.trace())
				return res
			}
		}
		// a complete staged body that does not hash to the announced value is 'failed'
		for _, e := range st.Stage {
			if e.Dir || !strings.HasSuffix(e.Path, fullExt) {
				continue
			}
			name := strings.TrimSuffix(e.Path, fullExt)
			// (only while that announcement is the one in progress: when the cache entry of the name
			// records a DELIVERED version - finalized or logged -, a complete body lying next to it is the
			// leftover of another version, e.g. of a failed newer one whose companion a late duplicate of
			// the delivered version replaced before the receiver was restarted; what was delivered is
			// judged above, at the moment of delivery)
			if h := st.Hashes[name]; h != "" && h != e.MD5 && st.States[name] != stateFailed && st.States[name] < stateFinalized {
				res.Viol = fmt.Sprintf("step %d %s: complete staged file %s hashes to %s, announced %s, but its state is %d (not failed)\n%s", i, st.Act, e.Path, e.MD5, h, st.States[name], s.trace())
				return res
			}
		}
		if v := c02PollOracle(s, i); v != "" {
			res.Viol = v
			return res
		}
	}
	nArr := 0
	for _, st := range s.steps {
		nArr += len(st.Arrived)
	}
	failed := 0
	lastSt := s.steps[len(s.steps)-1]
	for _, v := range lastSt.States {
		if v == stateFailed {
			failed++
		}
	}
	res.Outcome = fmt.Sprintf("arrivals=%d failed=%d", nArr, failed)
	res.Digest = s.digest(fmt.Sprint(announced))
	return res
}

func simNonTrivial(hist []sAction, r vh.HistResult) bool {
	recv := 0
	for _, a := range hist {
		if strings.HasPrefix(a.Op, "recv") {
			recv++
		}
	}
	return recv >= 2
}

func runSimCheck(t *testing.T, prop, partName string, files []*sFile, alphabet func([]sAction) []sAction, check func(*sim, bool) vh.HistResult, depth int, bound string) {
	stT = t
	rep := vh.NewReport(prop, partName)
	defer rep.Write()
	var rc simReplay
	if vh.ReplaySpec(&rc) {
		r := simRun(rc.Files, rc.Hist, check)
		rep.Executions = 1
		if r.Viol != "" {
			rep.Violate(r.Class, r.Viol, rc)
		}
		return
	}
	h := &vh.Hist[sAction]{
		Rep:        rep,
		Alphabet:   alphabet,
		Run:        func(hist []sAction) vh.HistResult { return simRun(files, hist, check) },
		MaxDepth:   depth,
		ShardDepth: 2,
		NonTrivial: simNonTrivial,
		Render:     func(hist []sAction) interface{} { return simReplay{Files: files, Hist: hist} },
	}
	h.Explore()
	rep.Bound = bound
}

func TestC01(t *testing.T) {
	depth := 5
	if vh.Thorough() {
		depth = 7
	}
	files := c01Files()
	runSimCheck(t, "C01", "stage histories (E-HIST)", files, c01Alphabet(files, vh.Thorough()), c01Check, depth,
		fmt.Sprintf("all histories up to length %d over: 2 versions of a renamed file in 2 parts each + a file with the same leaf name in a sub-directory; every part received <=2 times in any order, one (thorough: two) corruption(s) out of {byte flipped in transit, wrong announced hash, staged partial overwritten}, polls (with the file's time and with a time 48 h older), clock +11 s/+31 min/+25 h, orderly restart", depth))
}

var _ = filepath.Join

// TestSimTrace prints the trace of a replayed history (debugging aid).
func TestSimTrace(t *testing.T) {
	stT = t
	var rc simReplay
	if !vh.ReplaySpec(&rc) {
		t.Skip("no replay")
	}
	simRun(rc.Files, rc.Hist, func(s *sim, _ bool) vh.HistResult {
		fmt.Println(s.trace())
		fmt.Println(s.w.dump())
		fmt.Println(s.w.tree())
		return vh.HistResult{Enabled: true}
	})
}

// c02PollOracle (receiver half of C02): a positive poll answer means a validated copy of the
// version the sender asks about is durably held. The sender asks after it transmitted all
// bytes of a version, so the version meant is the one announced last under that name,
// provided all of its parts were transmitted since it became current.
func c02PollOracle(s *sim, i int) string {
	st := s.steps[i]
	if !(st.Act.Op == "poll" || st.Act.Op == "pollold") || !(st.Status == sts.ConfirmPassed || st.Status == sts.ConfirmWaiting) {
		return ""
	}
	f := s.files[st.Act.F]
	var cur *sFile
	sent := map[int]bool{}
	for _, x := range s.steps[:i] {
		xf := s.files[x.Act.F]
		if xf == nil || xf.Name != f.Name || !strings.HasPrefix(x.Act.Op, "recv") {
			continue
		}
		if x.Act.Op == "recvwrong" {
			// announces another hash: a version of its own, never completed here
			cur, sent = nil, map[int]bool{}
			continue
		}
		if cur != xf {
			cur, sent = xf, map[int]bool{}
		}
		sent[x.Act.P] = true
	}
	if cur == nil || len(sent) != len(cur.Cuts)-1 {
		return ""
	}
	h := cur.hash()
	for _, e := range vh.List(s.w.stageDir) {
		if e.Path == cur.Name+waitExt && e.MD5 == h {
			return ""
		}
	}
	for _, c := range s.w.consumed {
		if c == cur.target()+" "+h {
			return ""
		}
	}
	return fmt.Sprintf("step %d: the poll of %s answers %d, but the version transmitted last (%s, hash %s) is neither held validated nor delivered\n%s", i, f.Name, st.Status, cur.Key, h, s.trace())
}

// TestC01Held: the integrity oracle over a file that is held for its predecessor while a new
// version of it arrives (the constellation behind repo fixes 21fb961 .. 33120df).
func TestC01Held(t *testing.T) {
	files := []*sFile{
		{Key: "p1", Name: "p", Data: "PPPP", Cuts: []int64{0, 4}},
		{Key: "b1", Name: "b", Prev: "p", Data: "CCCCDD", Cuts: []int64{0, 6}},
		{Key: "b2", Name: "b", Prev: "p", Data: "ccccdd", Cuts: []int64{0, 4, 6}, TimeOff: 60},
	}
	alphabet := func(hist []sAction) []sAction {
		var out []sAction
		for _, f := range files {
			for p := 0; p < len(f.Cuts)-1; p++ {
				if histCount(hist, "recv", f.Key, p) < 1 {
					out = append(out, sAction{Op: "recv", F: f.Key, P: p})
				}
			}
		}
		if histCount(hist, "recvbad", "", 0) < 1 {
			out = append(out, sAction{Op: "recvbad", F: "b1", P: 0}, sAction{Op: "recvbad", F: "b2", P: 1}, sAction{Op: "recvbad", F: "p1", P: 0})
		}
		if histCount(hist, "poll", "", 0) < 1 {
			out = append(out, sAction{Op: "poll", F: "b1"}, sAction{Op: "poll", F: "b2"})
		}
		for _, op := range []string{"restart", "adv10s", "adv30m"} {
			if histCount(hist, op, "", 0) < 1 {
				out = append(out, sAction{Op: op})
			}
		}
		return out
	}
	depth := 6
	if vh.Thorough() {
		depth = 8
	}
	runSimCheck(t, "C01", "a held file superseded by a new version (E-HIST)", files, alphabet, c01Check, depth,
		fmt.Sprintf("all histories up to length %d over: file p (1 part), file b version 1 (1 part, predecessor p) and version 2 (same size, 2 parts, predecessor p); every part once, one part damaged in transit, one poll (for either version), orderly restart, clock +11 s / +31 min", depth))
}

// c01AfterCrash: the integrity half of the crash oracle. Whatever arrived in the final directory
// at any step of the history (before the crash, during recovery, during the resumption) carries a
// proper target name, the content of an announced version of that name, and - at the end - the
// receive log holds a record of that name with that hash.
func c01AfterCrash(s *sim) (viol, class string) {
	last := s.steps[len(s.steps)-1]
	for i, st := range s.steps {
		for _, arr := range st.Arrived {
			sp := strings.LastIndex(arr, " ")
			target, md5 := arr[:sp], arr[sp+1:]
			if strings.HasSuffix(target, ".lck") {
				continue // the transient name of fileutil.Move (C06 judges leftovers of an interrupted move)
			}
			okHash := false
			for _, k := range s.order {
				f := s.files[k]
				if f.target() == target && f.hash() == md5 {
					okHash = true
				}
			}
			if !okHash {
				return fmt.Sprintf("step %d: %q appeared in the final directory with content md5 %s, which is no announced version of that name\n%s", i, target, md5, s.trace()), ""
			}
			logged := false
			for _, r := range last.LogAfter {
				f := strings.Split(r, "|")
				tgt := f[0]
				if f[1] != "" {
					tgt = f[1]
				}
				if tgt == target && f[2] == md5 {
					logged = true
				}
			}
			if !logged {
				return fmt.Sprintf("step %d: %q (md5 %s) was delivered to the final directory, but after the crash, recovery and resumption the receive log has no record of that name with that hash: %v\n%s", i, target, md5, last.LogAfter, s.trace()), ""
			}
		}
	}
	return "", ""
}

// TestC01Crash: delivered content vs. receive log across receiver crashes at every file-system
// mutation (the enumeration of TestC06, judged by the integrity oracle).
func TestC01Crash(t *testing.T) {
	crashOracle = c01AfterCrash
	defer func() { crashOracle = c06AfterCrash }()
	depth := 5
	if vh.Thorough() {
		depth = 7
	}
	files := c06Files()
	runCrashPoints(t, "C01", "delivered content and receive log across receiver crashes (E-HIST)", files, c06Alphabet(files, vh.Thorough()), depth, false,
		fmt.Sprintf("crash-free histories up to length %d over: file a (renamed to x/a, 2 parts), file b (1 part, predecessor a); parts up to twice in any order, one corrupted part, one poll, clock +11 s, CleanNow, orderly restart; the receiver dies before each file-system mutation of every transition and at rest after it, and (quick: histories up to length 3) again before each mutation of the recovery that follows; then real Recover() and an ideal resumption; every file that arrived in the final directory at any step must be an announced version and must have its record (name, hash) in the receive log at the end", depth))
}
