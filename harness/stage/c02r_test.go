//go:build verif

package stage

import (
	"fmt"
	"testing"

	"github.com/arm-doe/sts/internal/verif/vh"
)

// C02, receiver half: "The receiver answers positively only for content it durably holds
// validated (awaiting release or already delivered and logged)" - for all receiver
// histories, whatever it delivered and logged earlier under the same names.

func c02rFiles() []*sFile {
	return []*sFile{
		{Key: "a1", Name: "a", Data: "AAAA", Cuts: []int64{0, 4}},
		// the same name used again for new content, created 25 h after the scenario starts
		{Key: "a2", Name: "a", Data: "aaaa", Cuts: []int64{0, 4}, TimeOff: 26 * 3600},
		{Key: "b1", Name: "b", Prev: "a", Data: "CCCC", Cuts: []int64{0, 4}},
	}
}

func c02rAlphabet(files []*sFile, thorough bool) func(hist []sAction) []sAction {
	return func(hist []sAction) []sAction {
		var out []sAction
		for _, f := range files {
			if histCount(hist, "recv", f.Key, 0) < 2 {
				out = append(out, sAction{Op: "recv", F: f.Key, P: 0})
			}
		}
		if histCount(hist, "recvbad", "", 0) < 1 {
			for _, f := range files {
				out = append(out, sAction{Op: "recvbad", F: f.Key, P: 0})
			}
		}
		if histCount(hist, "poll", "", 0)+histCount(hist, "pollold", "", 0) < 2 {
			out = append(out, sAction{Op: "poll", F: "a1"}, sAction{Op: "poll", F: "b1"}, sAction{Op: "pollold", F: "a1"}, sAction{Op: "pollold", F: "b1"})
		}
		if histCount(hist, "adv25h", "", 0) < 2 {
			out = append(out, sAction{Op: "adv25h"})
		}
		for _, op := range []string{"age", "restart", "adv10s"} {
			if histCount(hist, op, "", 0) < 1 {
				out = append(out, sAction{Op: op})
			}
		}
		return out
	}
}

func c02rCheck(s *sim, _ bool) vh.HistResult {
	res := vh.HistResult{Enabled: true}
	i := len(s.steps) - 1
	if v := c02PollOracle(s, i); v != "" {
		res.Viol = v
		return res
	}
	st := s.steps[i]
	res.Outcome = fmt.Sprintf("%s status=%d", st.Act.Op, st.Status)
	res.Digest = s.digest()
	return res
}

func TestC02R(t *testing.T) {
	depth := 6
	if vh.Thorough() {
		depth = 8
	}
	files := c02rFiles()
	runSimCheck(t, "C02", "receiver poll answers over delivery histories (E-HIST)", files, c02rAlphabet(files, vh.Thorough()), c02rCheck, depth,
		fmt.Sprintf("all histories up to length %d over: single-part file a in two versions (the second created a day later), file b held for a; deliveries (up to twice), one corrupted delivery, polls carrying the file's time or a time 48 h older (<=2), clock +25 h (x2) / +11 s, cache ageing, orderly restart; every positive poll answer is checked against what the receiver durably holds", depth))
}

// TestC02RHeld: poll answers while version 1 of a file is held for its predecessor and version 2
// of it arrives (intact or damaged).
func TestC02RHeld(t *testing.T) {
	files := []*sFile{
		{Key: "a1", Name: "a", Data: "AAAA", Cuts: []int64{0, 4}},
		{Key: "b1", Name: "b", Prev: "a", Data: "CCCC", Cuts: []int64{0, 4}},
		{Key: "b2", Name: "b", Prev: "a", Data: "cccc", Cuts: []int64{0, 4}, TimeOff: 60},
	}
	alphabet := func(hist []sAction) []sAction {
		var out []sAction
		b1done := histCount(hist, "recv", "b1", 0) > 0
		for _, f := range files {
			if f.Key == "b2" && !b1done {
				continue
			}
			if histCount(hist, "recv", f.Key, 0) < 1 {
				out = append(out, sAction{Op: "recv", F: f.Key, P: 0})
			}
		}
		if histCount(hist, "recvbad", "", 0) < 1 && b1done {
			out = append(out, sAction{Op: "recvbad", F: "b2", P: 0})
		}
		if histCount(hist, "poll", "", 0) < 2 {
			out = append(out, sAction{Op: "poll", F: "b1"}, sAction{Op: "poll", F: "b2"})
		}
		for _, op := range []string{"restart", "adv10s"} {
			if histCount(hist, op, "", 0) < 1 {
				out = append(out, sAction{Op: op})
			}
		}
		return out
	}
	depth := 6
	if vh.Thorough() {
		depth = 8
	}
	runSimCheck(t, "C02", "receiver poll answers around a held file that is superseded by a new version (E-HIST)", files, alphabet, c02rCheck, depth,
		fmt.Sprintf("all histories up to length %d over: file a, file b version 1 (predecessor a) and, after it, version 2 - delivered intact or damaged; polls for either version (<=2), orderly restart, clock +11 s", depth))
}
