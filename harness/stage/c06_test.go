//go:build verif

package stage

import (
	"bytes"
	"encoding/json"
	"fmt"
	"os"
	"path/filepath"
	"strings"
	"testing"

	"github.com/arm-doe/sts"
	"github.com/arm-doe/sts/internal/verif/vh"
	"github.com/arm-doe/sts/internal/verif/vos"
)

// C06: a receiver crash at any point loses nothing and delivers nothing unvalidated.
//
// The crash-free histories are explored breadth-first (states deduplicated); for every
// transition (distinct source state, action) the receiver is killed before each
// file-system mutation the action (and the background work it triggers) performs, and once
// more at rest after it. The crash image is recovered by a new Stage through the real
// Recover(), then an ideal sender resumes.

func c06Files() []*sFile {
	return []*sFile{
		{Key: "a1", Name: "a", Renamed: "x/a", Data: "AAAABBBB", Cuts: []int64{0, 4, 8}},
		{Key: "b1", Name: "b", Prev: "a", Data: "CCCC", Cuts: []int64{0, 4}}, // held until a is delivered
	}
}

func c06Alphabet(files []*sFile, thorough bool) func(hist []sAction) []sAction {
	return func(hist []sAction) []sAction {
		var out []sAction
		for _, f := range files {
			for p := 0; p < len(f.Cuts)-1; p++ {
				if histCount(hist, "recv", f.Key, p) < 2 {
					out = append(out, sAction{Op: "recv", F: f.Key, P: p})
				}
			}
		}
		if histCount(hist, "recvbad", "", 0) < 1 {
			out = append(out, sAction{Op: "recvbad", F: "a1", P: 0})
		}
		if histCount(hist, "poll", "", 0) < 1 {
			out = append(out, sAction{Op: "poll", F: "a1"}, sAction{Op: "poll", F: "b1"})
		}
		for _, op := range []string{"adv10s", "restart", "clean"} {
			if histCount(hist, op, "", 0) < 1 {
				out = append(out, sAction{Op: op})
			}
		}
		return out
	}
}

// scanPartials asks the stage for its partial listing.
func (s *sim) scanPartials() (map[string]*sts.Partial, error) {
	var js []byte
	var err error
	runAsync(func() { js, err = s.w.st.Scan("1") })
	if err != nil {
		return nil, err
	}
	var list []*sts.Partial
	if err = json.Unmarshal(js, &list); err != nil {
		return nil, err
	}
	out := map[string]*sts.Partial{}
	for _, p := range list {
		out[p.Name] = p
	}
	return out, nil
}

func rangesCover(parts []*sts.ByteRange, b, e int64) bool {
	var rs [][2]int64
	for _, p := range parts {
		rs = append(rs, [2]int64{p.Beg, p.End})
	}
	return covers(rs, b, e)
}

// c06AfterCrash is the oracle applied after the last step of s crashed and was recovered.
// positives: file keys for which a poll had answered passed/waiting before the crash.
func c06AfterCrash(s *sim) (viol, class string) {
	crash := len(s.steps) - 1
	st := s.steps[crash]
	tr := func() string { return s.trace() }
	deliveredBefore := map[string]bool{}
	positive := map[string]bool{}
	for i, x := range s.steps {
		if i < crash {
			for _, arr := range x.Arrived {
				deliveredBefore[arr] = true
			}
		}
		if x.Act.Op == "poll" && (x.Status == sts.ConfirmPassed || x.Status == sts.ConfirmWaiting) {
			positive[x.Act.F] = true
		}
	}
	checkArrivals := func(arrived []string, when string) string {
		for _, arr := range arrived {
			sp := strings.LastIndex(arr, " ")
			target, md5 := arr[:sp], arr[sp+1:]
			okName, okHash := false, false
			for _, k := range s.order {
				f := s.files[k]
				if f.target() == target {
					okName = true
					if f.hash() == md5 {
						okHash = true
					}
				}
			}
			if okName && !okHash {
				return fmt.Sprintf("%s: %q appeared in the final directory with content md5 %s, which is not the announced (validated) content", when, target, md5)
			}
			if !okName {
				return fmt.Sprintf("%s: a file appeared in the final directory under %q, which is no proper target name", when, target)
			}
		}
		return ""
	}
	if v := checkArrivals(st.Arrived, "after crash + recovery"); v != "" {
		cl := ""
		if strings.Contains(v, ".lck") {
			cl = "crash-between-move-renames"
		}
		return v + "\n" + tr(), cl
	}
	// ---- the partial listing is accurate
	partials, err := s.scanPartials()
	if err != nil {
		return "Scan failed after recovery: " + err.Error(), ""
	}
	for name, p := range partials {
		body, ok := s.w.staged(name, partExt)
		_, hasFull := s.w.staged(name, fullExt)
		_, hasWait := s.w.staged(name, waitExt)
		if !ok || hasFull || hasWait {
			// complete (.full/.wait): the companion describes that body and validation decides;
			// a .part next to it is a repeated transmission in progress
			continue
		}
		var f *sFile
		for _, k := range s.order {
			if s.files[k].Name == name && s.files[k].hash() == p.Hash {
				f = s.files[k]
			}
		}
		if f == nil {
			return fmt.Sprintf("after recovery the partial listing names %s with unknown hash %s\n%s", name, p.Hash, tr()), ""
		}
		if deliveredBefore[f.target()+" "+f.hash()] {
			// a repeated transmission of a version that is already delivered: whatever the record
			// says, the copy is discarded as a duplicate when it completes
			continue
		}
		tainted := false
		for _, x := range s.steps {
			if x.Act.Op == "recvbad" && x.Act.F == f.Key {
				tainted = true // bytes corrupted in transit are recorded in good faith; validation catches them
			}
		}
		for _, r := range p.Parts {
			if tainted {
				continue
			}
			if r.End > int64(len(body)) || !bytes.Equal(body[r.Beg:r.End], []byte(f.Data)[r.Beg:r.End]) {
				return fmt.Sprintf("after recovery the partial listing claims [%d,%d) of %s, but the staged file holds %q there (source %q)\n%s", r.Beg, r.End, name, safeSlice(body, r.Beg, r.End), f.Data[r.Beg:r.End], tr()), ""
			}
		}
	}
	// ---- a file already delivered is known as such
	for _, k := range s.order {
		f := s.files[k]
		if deliveredBefore[f.target()+" "+f.hash()] {
			var status int
			runAsync(func() { status = s.w.st.GetFileStatus(f.Name, s.ftime) })
			if status != sts.ConfirmPassed {
				return fmt.Sprintf("after recovery %s, delivered before the crash, is answered %d by the poll (would be sent again)\n%s", f.Name, status, tr()), ""
			}
		}
	}
	// the version of each name the sender is working on: the one announced last (the first one
	// if none was announced yet)
	current := map[string]string{}
	for _, k := range s.order {
		if _, ok := current[s.files[k].Name]; !ok {
			current[s.files[k].Name] = k
		}
	}
	for _, x := range s.steps {
		if f := s.files[x.Act.F]; f != nil && strings.HasPrefix(x.Act.Op, "recv") {
			current[f.Name] = f.Key
		}
	}
	var keys []string
	for _, k := range s.order {
		if current[s.files[k].Name] == k {
			keys = append(keys, k)
		}
	}
	// ---- an ideal sender resumes: poll; send what the listing does not hold; repeat
	for round := 0; round < 3; round++ {
		progress := false
		for _, k := range keys {
			f := s.files[k]
			if s.countArrivals(f) > 0 {
				continue
			}
			// a sender that has transmitted every part polls; one that was still transmitting
			// carries on with the parts the receiver does not list (it does not poll by name,
			// which could be answered for an older version)
			allSent := true
			for i := 0; i < len(f.Cuts)-1; i++ {
				sent := false
				for _, x := range s.steps[:crash+1] {
					if strings.HasPrefix(x.Act.Op, "recv") && x.Act.F == k && x.Act.P == i && x.Err == "" && (!x.Crashed || x.Acked) {
						sent = true
					}
				}
				allSent = allSent && sent
			}
			status := sts.ConfirmNone
			if allSent || round > 0 {
				runAsync(func() { status = s.w.st.GetFileStatus(f.Name, s.ftime) })
			}
			if status == sts.ConfirmPassed || status == sts.ConfirmWaiting {
				continue
			}
			partials, _ = s.scanPartials()
			p := partials[f.Name]
			for i := 0; i < len(f.Cuts)-1; i++ {
				if status != sts.ConfirmFailed && p != nil && p.Hash == f.hash() && rangesCover(p.Parts, f.Cuts[i], f.Cuts[i+1]) {
					continue
				}
				s.apply(sAction{Op: "recv", F: k, P: i}, false)
				progress = true
			}
		}
		s.apply(sAction{Op: "adv10s"}, true)
		for _, x := range s.steps[crash+1:] {
			if v := checkArrivals(x.Arrived, "during resumption"); v != "" {
				return v + "\n" + tr(), ""
			}
		}
		if !progress && round > 0 {
			break
		}
	}
	last := s.steps[len(s.steps)-1]
	for _, k := range keys {
		f := s.files[k]
		n := s.countArrivals(f)
		if n > 1 {
			return fmt.Sprintf("%s was delivered %d times (crash at %s)\n%s", f.Name, n, st.Act, tr()), ""
		}
		if n == 0 {
			what := "is not delivered after recovery and an ideal resumption"
			if positive[k] {
				what = "had been reported as validated (poll passed/waiting) before the crash, yet " + what
			}
			cl := ""
			for _, e := range vh.List(s.w.finalDir) {
				if strings.HasSuffix(e.Path, ".lck") {
					cl = "crash-between-move-renames"
				}
			}
			return fmt.Sprintf("%s %s; stage: %v\n%s", f.Name, what, stageNames(last.Stage), tr()), cl
		}
		recs := 0
		for _, r := range last.LogAfter {
			if strings.HasPrefix(r, f.Name+"|") && strings.HasSuffix(r, "|"+f.hash()) {
				recs++
			}
		}
		crashes := 1
		if st.Act.K2 > 0 {
			crashes = 2
		}
		if recs < 1 || recs > 1+crashes {
			return fmt.Sprintf("%s delivered once but logged %d times after %d crash(es) (each crash between logging and moving may repeat the record once)\n%s", f.Name, recs, crashes, tr()), ""
		}
	}
	// nothing but properly named files may remain in the final directory
	for _, e := range vh.List(s.w.finalDir) {
		if !e.Dir && (!s.keep || strings.HasSuffix(e.Path, ".lck")) {
			return fmt.Sprintf("%s remains in the final directory after recovery and resumption\n%s", e.Path, tr()), "crash-between-move-renames"
		}
	}
	if s.keep {
		// what sits under each proper name is the version delivered last (per the receive log)
		for _, e := range vh.List(s.w.finalDir) {
			if e.Dir {
				continue
			}
			want := ""
			for _, rec := range last.LogAfter {
				f := strings.Split(rec, "|")
				tgt := f[0]
				if f[1] != "" {
					tgt = f[1]
				}
				if tgt == e.Path {
					want = f[2]
				}
			}
			if want != "" && want != e.MD5 {
				return fmt.Sprintf("%s in the final directory has md5 %s, the version logged last is %s (a validated, logged version was not put in place)\n%s", e.Path, e.MD5, want, tr()), ""
			}
		}
	}
	return "", ""
}

func stageNames(es []vh.Entry) []string {
	var out []string
	for _, e := range es {
		if !e.Dir {
			out = append(out, e.Path)
		}
	}
	return out
}

func (s *sim) countArrivals(f *sFile) int {
	n := 0
	for _, c := range s.w.consumed {
		if c == f.target()+" "+f.hash() {
			n++
		}
	}
	return n
}

type c06Replay struct {
	Files []*sFile  `json:"files"`
	Hist  []sAction `json:"history"`
}

// c06Crash runs hist whose last action carries crash point(s); returns ops counts.
func c06Crash(files []*sFile, hist []sAction) (enabled bool, viol, class string, ops2 int) {
	simRun(files, hist, func(s *sim, _ bool) vh.HistResult {
		enabled = true
		ops2 = s.steps[len(s.steps)-1].Ops2
		viol, class = crashOracle(s)
		if os.Getenv("VERIF_TRACE") != "" {
			fmt.Println(s.trace())
			fmt.Println(s.w.tree())
		}
		return vh.HistResult{Enabled: true}
	})
	return
}

// TestC06Versions: the same name delivered a second time with new content while the first
// delivery still sits in the final directory (no consumer took it away).
func TestC06Versions(t *testing.T) {
	files := []*sFile{
		{Key: "a1", Name: "a", Renamed: "x/a", Data: "AAAABBBB", Cuts: []int64{0, 4, 8}},
		{Key: "a2", Name: "a", Renamed: "x/a", Data: "aaaabbbbcc", Cuts: []int64{0, 4, 10}},
	}
	alphabet := func(hist []sAction) []sAction {
		var out []sAction
		a1done := histCount(hist, "recv", "a1", 0) > 0 && histCount(hist, "recv", "a1", 1) > 0
		for _, f := range files {
			if f.Key == "a2" && !a1done {
				continue
			}
			for p := 0; p < 2; p++ {
				if histCount(hist, "recv", f.Key, p) < 1 {
					out = append(out, sAction{Op: "recv", F: f.Key, P: p})
				}
			}
		}
		for _, op := range []string{"restart", "adv10s"} {
			if histCount(hist, op, "", 0) < 1 {
				out = append(out, sAction{Op: op})
			}
		}
		return out
	}
	runC06(t, "receiver crash points, a name delivered again with new content (E-HIST)", files, alphabet, 5, true,
		"crash-free histories up to length 5 over two versions of one renamed file (2 parts each, the second version after the first was transmitted), orderly restart, clock +11 s; delivered files stay in the final directory; every crash point of every transition, and of the recovery that follows for histories up to length 3")
}

// TestC06Held: a version that is validated and held for its predecessor (its body is <name>.wait)
// is superseded by a new version of the same name; the receiver dies anywhere in between.
func TestC06Held(t *testing.T) {
	files := []*sFile{
		{Key: "p1", Name: "p", Data: "PPPP", Cuts: []int64{0, 4}},
		{Key: "b1", Name: "b", Prev: "p", Data: "CCCCDD", Cuts: []int64{0, 6}},
		{Key: "b2", Name: "b", Prev: "p", Data: "ccccdd", Cuts: []int64{0, 4, 6}}, // same size as version 1
	}
	alphabet := func(hist []sAction) []sAction {
		var out []sAction
		b1done := histCount(hist, "recv", "b1", 0) > 0
		for _, f := range files {
			if f.Key == "b2" && !b1done {
				continue
			}
			for p := 0; p < len(f.Cuts)-1; p++ {
				if histCount(hist, "recv", f.Key, p) < 1 {
					out = append(out, sAction{Op: "recv", F: f.Key, P: p})
				}
			}
		}
		for _, op := range []string{"restart", "adv10s"} {
			if histCount(hist, op, "", 0) < 1 {
				out = append(out, sAction{Op: op})
			}
		}
		return out
	}
	runC06(t, "receiver crash points, a held version superseded by a new one (E-HIST)", files, alphabet, 5, false,
		"crash-free histories up to length 5 over: file p (1 part), two versions of file b (same size, 1 and 2 parts, predecessor p; the second version after the first was transmitted), orderly restart, clock +11 s; every crash point of every transition, and of the recovery that follows for histories up to length 3")
}

// TestC06Aged: a delivered file is transmitted again more than a day later (its delivery is then
// known from the receive log only) and the receiver dies during that retransmission.
func TestC06Aged(t *testing.T) {
	files := []*sFile{{Key: "a1", Name: "a", Renamed: "x/a", Data: "AAAABBBB", Cuts: []int64{0, 4, 8}}}
	alphabet := func(hist []sAction) []sAction {
		var out []sAction
		for p := 0; p < 2; p++ {
			if histCount(hist, "recv", "a1", p) < 2 {
				out = append(out, sAction{Op: "recv", F: "a1", P: p})
			}
		}
		for _, op := range []string{"adv25h", "restart", "age"} {
			max := 1
			if op == "adv25h" {
				max = 2 // two days on, the delivery's log record lies in a day file that "the last 24 h" does not touch
			}
			if histCount(hist, op, "", 0) < max {
				out = append(out, sAction{Op: op})
			}
		}
		return out
	}
	runC06(t, "receiver crash points, retransmission of a file delivered more than a day ago (E-HIST)", files, alphabet, 6, false,
		"crash-free histories up to length 6 over one renamed file in 2 parts, each part up to twice, clock +25 h (x2), cache ageing, orderly restart; every crash point of every transition, and of the recovery that follows for histories up to length 3")
}

func TestC06(t *testing.T) {
	depth := 5
	if vh.Thorough() {
		depth = 7
	}
	files := c06Files()
	runC06(t, "receiver crash points (E-HIST)", files, c06Alphabet(files, vh.Thorough()), depth, false,
		fmt.Sprintf("crash-free histories up to length %d over: file a (renamed to x/a, 2 parts), file b (1 part, predecessor a); parts received up to twice in any order, one corrupted part, one poll, clock +11 s, CleanNow, orderly restart; for every transition the receiver dies before each file-system mutation of the step and at rest after it (k-th mutation enumerated, not sampled), and (quick: histories up to length 3; thorough: all) again before each mutation of the recovery that follows; then real Recover(), Scan, and an ideal resumption", depth))
}

// crashOracle judges the state after crash(es), recovery and an ideal resumption.
var crashOracle = c06AfterCrash

func runC06(t *testing.T, partName string, files []*sFile, alphabet func([]sAction) []sAction, depth int, keep bool, bound string) {
	runCrashPoints(t, "C06", partName, files, alphabet, depth, keep, bound)
}

func runCrashPoints(t *testing.T, prop, partName string, files []*sFile, alphabet func([]sAction) []sAction, depth int, keep bool, bound string) {
	stT = t
	simKeep = keep
	defer func() { simKeep = false }()
	// a file written in place can be caught empty (after the truncating open) or half written
	vos.TornWrites = true
	defer func() { vos.TornWrites = false }()
	rep := vh.NewReport(prop, partName)
	defer rep.Write()
	var rc c06Replay
	if vh.ReplaySpec(&rc) {
		_, v, cl, _ := c06Crash(rc.Files, rc.Hist)
		rep.Executions = 1
		if v != "" {
			rep.Violate(cl, v, rc)
		}
		return
	}
	base := func(s *sim, _ bool) vh.HistResult {
		st := s.steps[len(s.steps)-1]
		return vh.HistResult{Enabled: true, Digest: s.digest(), Ops: st.Ops, Outcome: fmt.Sprintf("%s ops=%d", st.Act.Op, st.Ops)}
	}
	h := &vh.Hist[sAction]{
		Rep:        rep,
		Alphabet:   alphabet,
		Run:        func(hist []sAction) vh.HistResult { return simRun(files, hist, base) },
		MaxDepth:   depth,
		ShardDepth: 2,
		NonTrivial: simNonTrivial,
		Render:     func(hist []sAction) interface{} { return c06Replay{Files: files, Hist: hist} },
		OnTransition: func(hist []sAction, r vh.HistResult) {
			for k := 1; k <= r.Ops+1; k++ {
				ch := append([]sAction{}, hist...)
				ch[len(ch)-1].K = k
				en, v, cl, ops2 := c06Crash(files, ch)
				rep.Executions++
				if !en {
					continue
				}
				rep.Transitions++
				rep.Count("crash_points", 1)
				rep.Outcome(fmt.Sprintf("crash in %s", hist[len(hist)-1].Op))
				if v != "" {
					rep.Violate(cl, v, c06Replay{Files: files, Hist: ch})
					continue
				}
				if !vh.Thorough() && len(hist) > 3 {
					continue
				}
				// a second crash inside the recovery itself
				for k2 := 1; k2 <= ops2; k2++ {
					ch2 := append([]sAction{}, ch...)
					ch2[len(ch2)-1].K2 = k2
					en, v, cl, _ := c06Crash(files, ch2)
					rep.Executions++
					if !en {
						continue
					}
					rep.Transitions++
					rep.Count("double_crash_points", 1)
					if v != "" {
						rep.Violate(cl, v, c06Replay{Files: files, Hist: ch2})
					}
				}
			}
		},
	}
	h.Explore()
	rep.Bound = bound
	_ = os.Remove
	_ = filepath.Join
}
